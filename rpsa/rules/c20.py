"""C20  Raptor workers and masters account for every request (DESIGN 5 / C20)"""

import ast
import copy

from ..model import (walk, dotted, call_name, kwarg, unparse, short, UNKNOWN,
                     root_name, AnalysisError, calls_in, stores_in_target)
from ..cfg import cfg_of
from ..flow import (guards, must_pass, Exploration, loop_slice, reaching_defs,
                    Deps)
from .. import idioms as I
from .c14 import (Interp, UNK, _key_of, resolve_aliases, truth, deref,
                  Alias)

WD   = ('raptor/worker_default.py', 'DefaultWorker')
WK   = ('raptor/worker.py', 'Worker')
MA   = ('raptor/master.py', 'Master')
SCH  = ('agent/scheduler/base.py', 'AgentSchedulingComponent')
RES  = 'self._resources'
LOCK = 'self._rlock'
NONEXC = {'next', 'T', 'F', 'iter', 'done'}


def all_funcs(f):
    """f and its nested functions (each has its own CFG)"""
    out = [f]
    for g in f.nested.values():
        out += all_funcs(g)
    return out


def _locked(node, lock):
    return any(any(unparse(i.context_expr) == lock for i in w.items)
               for w in node.withs)


def _held_on_entry(prog, W, mname, lock, _seen=()):
    """the private method `mname` of class W runs with `lock` held whenever
    it runs: every mention of its name in the package is the callee of a
    call `self.mname(...)` in a method body of W itself (not in a nested
    function, which may run later on another thread) that lies inside `with
    lock` or in a method for which the same holds; it is never taken as a
    value (callback, thread target) and there is at least one such call"""
    if not mname.startswith('_') or mname.startswith('__') or \
            mname in _seen or len(_seen) > 4:
        return False
    calls = {}
    for om, m in W.methods.items():
        own = set()
        for g in all_funcs(m)[1:]:
            own |= {id(x) for x in ast.walk(g.node)}
        for c in ast.walk(m.node):
            if isinstance(c, ast.Call) and \
                    isinstance(c.func, ast.Attribute) and \
                    c.func.attr == mname and \
                    isinstance(c.func.value, ast.Name) and \
                    c.func.value.id == 'self' and id(c) not in own:
                calls[id(c.func)] = (om, m, c)
    if not calls:
        return False
    for mod in prog.modules.values():
        for x in ast.walk(mod.tree):
            if isinstance(x, ast.Attribute) and x.attr == mname and \
                    id(x) not in calls:
                return False
            if isinstance(x, ast.Constant) and x.value == mname:
                return False                    # getattr(self, '<name>')
    for om, m, c in calls.values():
        node = I.stmt_node_map(cfg_of(m)).get(id(c))
        if node is None:
            return False
        if not _locked(node, lock) and not _held_on_entry(
                prog, W, om, lock, _seen + (mname,)):
            return False
    return True


# ------------------------------------------------------------------------------
# R20.1
#
def r20_1(prog, rep, rid='R20.1', tier='quick'):
    rep.rule(rid, 'every access to self._resources in DefaultWorker (outside '
             '__init__) lies inside `with self._rlock`', minimum=10)
    W = prog.cls(*WD)
    al = I.Aliases(prog, W, dict(W.methods), RES)
    for mname, m in sorted(W.methods.items()):
        if mname == '__init__':
            continue
        rooted = al.rooted.get(mname, set())
        for f in all_funcs(m):
            g = cfg_of(f)
            smap = I.stmt_node_map(g)
            for n in walk(f.node):
                hit = None
                if isinstance(n, ast.Attribute) and dotted(n) == RES:
                    hit = RES
                elif isinstance(n, ast.Name) and n.id in rooted and \
                        isinstance(n.ctx, ast.Load):
                    hit = n.id
                if hit is None:
                    continue
                rep.saw(f)
                node = smap.get(id(n))
                if node is None:
                    raise AnalysisError('R20.1: no CFG node for an access to '
                                        '%s in %s' % (hit, f.where))
                rep.check(_locked(node, LOCK) or
                          (f is m and _held_on_entry(prog, W, mname, LOCK)),
                          rid, f,
                          '%s: access to %s under %s' % (f.qual, hit, LOCK),
                          construct=node.ast if node.kind in ('stmt', 'test')
                          else short(n, 60),
                          message='%s touches the worker occupancy (%s) '
                          'outside `with %s`: _alloc (request thread) and '
                          '_dealloc (result watcher thread) interleave on the '
                          'same list' % (f.qual, hit, LOCK),
                          loc=f.loc(n),
                          history='request B is being allocated while request '
                          'A completes: both threads read/modify the core '
                          'list; B is granted a core that a third request '
                          'still holds, or A\'s cores are never freed')
    if tier == 'thorough':
        for c in prog.all_classes():
            if c is W or not c.module.rel.startswith('raptor/'):
                continue
            for mname, m in c.methods.items():
                if mname == '__init__':
                    continue
                g = cfg_of(m)
                smap = I.stmt_node_map(g)
                for n in walk(m.node):
                    if isinstance(n, ast.Attribute) and dotted(n) == RES and \
                            isinstance(getattr(n, 'ctx', None), ast.Load):
                        node = smap.get(id(n))
                        if node is not None and not node.withs:
                            rep.info(rid, m, '%s reads/writes %s outside any '
                                     'lock region (not an anchored class)'
                                     % (m.qual, RES), m.loc(n))


# ------------------------------------------------------------------------------
# R20.2 / R20.8   occupancy writer of the worker
#
def _const_path(e):
    """access path whose subscripts are all constants (nothing in it can be
    re-bound between a definition and a use)"""
    while isinstance(e, (ast.Attribute, ast.Subscript)):
        if isinstance(e, ast.Subscript) and \
                not isinstance(e.slice, ast.Constant):
            return False
        e = e.value
    return isinstance(e, ast.Name)


def _is_prefix(p, text):
    return text == p or (text.startswith(p) and text[len(p)] in '[.')


class _Paths:
    """Flow-sensitive reading of the access paths of one function: a local
    name holding a cached path (`pool = self._resources['cores']`, `held =
    task['slots'][0]`) reads as that path wherever that definition is the only
    one that reaches; the value variable of `for i, v in enumerate(L)` reads
    as `L[i]` while nothing was stored into L in the iteration."""

    def __init__(self, prog, f):
        self.prog, self.f = prog, f
        self.g = cfg_of(f)
        self.smap = I.stmt_node_map(self.g)
        self._rd = {}
        self._stores = sorted({unparse(t) for k, t, s in I.stores(f.node)
                               if k in ('assign', 'aug', 'del')})
        self._cell_stores = None

    def rdefs(self, name, nid):
        k = (name, nid)
        if k not in self._rd:
            self._rd[k] = reaching_defs(self.g, name, nid)
        return self._rd[k]

    def same_binding(self, names, n1, n2):
        """each name has one reaching definition, the same at both nodes"""
        for nm in names:
            if nm in self.f.params:
                if self.rdefs(nm, n1) or self.rdefs(nm, n2):
                    return False
                continue
            a, b = self.rdefs(nm, n1), self.rdefs(nm, n2)
            if len(a) != 1 or len(b) != 1 or a[0][0] is not b[0][0]:
                return False
        return True

    def _path_of_name(self, name, nid, depth):
        if name == 'self' or name in self.f.params or depth > 5:
            return None
        ds = self.rdefs(name, nid)
        if len(ds) != 1:
            return None
        dn, val = ds[0]
        if val is None or dn.kind != 'stmt' or \
                not isinstance(dn.ast, ast.Assign) or \
                len(dn.ast.targets) != 1 or \
                not isinstance(dn.ast.targets[0], ast.Name) or \
                not I.is_path(val):
            return None
        c = self.canon(val, dn.id, depth + 1)
        r = root_name(c)
        if (r != 'self' and r not in self.f.params) or not _const_path(c):
            return None
        if r in self.f.params and self.rdefs(r, nid):
            return None                     # the parameter itself is re-bound
        text = unparse(c)
        if any(_is_prefix(st, text) for st in self._stores):
            return None                     # (a prefix of) the path is re-bound
        return c

    def canon(self, expr, nid, depth=0):
        """copy of expr with cached paths spelled out, as read at node nid"""
        P = self

        class T(ast.NodeTransformer):
            def visit_Name(self, n):
                if isinstance(n.ctx, ast.Load):
                    r = P._path_of_name(n.id, nid, depth)
                    if r is not None:
                        return copy.deepcopy(r)
                return n
        out = T().visit(copy.deepcopy(expr))
        for n in ast.walk(out):
            if hasattr(n, 'ctx'):
                n.ctx = ast.Load()
        return out

    @staticmethod
    def _as_cell(c):
        if isinstance(c, ast.Subscript) and \
                isinstance(c.value, ast.Subscript) and \
                dotted(c.value.value) == RES and \
                isinstance(c.value.slice, ast.Constant):
            return c.value.slice.value, c.slice
        return None

    def cell(self, expr, nid):
        """(kind, index expr) if expr, read at node nid, denotes the cell
        self._resources[kind][index]"""
        hit = self._as_cell(self.canon(expr, nid))
        if hit or not isinstance(expr, ast.Name):
            return hit
        ds = self.rdefs(expr.id, nid)
        if len(ds) != 1 or ds[0][0].kind != 'for':
            return None
        h = ds[0][0]
        it, tg = h.ast.iter, h.ast.target
        if not (isinstance(it, ast.Call) and call_name(it) == 'enumerate' and
                len(it.args) == 1 and not it.keywords and
                isinstance(tg, (ast.Tuple, ast.List)) and len(tg.elts) == 2
                and all(isinstance(x, ast.Name) for x in tg.elts) and
                tg.elts[1].id == expr.id and tg.elts[0].id != expr.id):
            return None
        base = self.canon(it.args[0], h.id)
        if not (isinstance(base, ast.Subscript) and
                dotted(base.value) == RES and
                isinstance(base.slice, ast.Constant)):
            return None
        K = base.slice.value
        if not self.same_binding([tg.elts[0].id], nid, nid) or \
                self.rdefs(tg.elts[0].id, nid)[0][0] is not h:
            return None
        # the element was read when the iteration started: no store into the
        # list between that and this node
        body = self.g.loop_body[h.id]
        for m in self.cell_stores():
            if m['K'] != K or m['node'].id not in body or \
                    m['node'].id == nid:
                continue
            if nid in self.g.reachable(m['node'].id, no_back=True):
                return None
        return K, ast.Name(id=tg.elts[0].id, ctx=ast.Load())

    def cell_stores(self):
        """stores `self._resources[K][i] = v` of the function (through cached
        paths as well): [{K, idx, val, node, stmt}]; any other write below
        self._resources is a shape this analysis does not know"""
        if self._cell_stores is not None:
            return self._cell_stores
        out = []
        f, g = self.f, self.g
        for n in g.nodes:
            if n.kind != 'stmt' or n.ast is None or isinstance(
                    n.ast, (ast.FunctionDef, ast.AsyncFunctionDef,
                            ast.ClassDef)):
                continue
            for kind, target, stmt in I.stores(n.ast):
                c = self.canon(target, n.id)
                text = unparse(c)
                if not _is_prefix(RES, text):
                    continue
                hit = self._as_cell(c)
                if kind == 'mutate' and hit is not None:
                    # a method call on the cell's value (an int): not a write
                    continue
                if hit is None or kind != 'assign' or \
                        not isinstance(stmt, ast.Assign) or \
                        len(stmt.targets) != 1 or stmt.targets[0] is not target:
                    raise AnalysisError(
                        'UNRECOGNISED-IDIOM %s: `%s` writes the occupancy '
                        'other than by a store to one cell '
                        'self._resources[kind][i]' % (f.where, short(stmt, 60)))
                out.append({'K': hit[0], 'idx': hit[1],
                            'val': self.prog.fold(f.module, stmt.value, f.cls),
                            'node': n, 'stmt': stmt})
        self._cell_stores = out
        return out


def _every_iteration_passes(g, head, nid):
    """every normal path through one iteration of the loop passes node nid
    (no `continue`, `break` or `return` around it)"""
    start = None
    for e in g.succ[head]:
        if e.enter == head:
            start = e.dst
    if start is None:
        return False
    body = g.loop_body[head]
    r = g.reachable(start, skip_nodes={nid}, labels=NONEXC)
    return head not in r and all(x in body for x in r)


def _is_new_list(v):
    return (isinstance(v, (ast.List, ast.Tuple)) and not v.elts) or (
        isinstance(v, ast.Call) and isinstance(v.func, ast.Name) and
        v.func.id == 'list' and not v.args and not v.keywords)


def _names(e):
    return frozenset(n.id for n in ast.walk(e) if isinstance(n, ast.Name))


class _AllocFlow:
    """All paths of DefaultWorker._alloc over the abstract state

        (what the local names hold: a list object / a constant,
         which cells were marked busy and in which list their index was
         recorded, what task['slots'] holds, truth of the value returned)

    Loops are entered at most once per path; a test on a name whose value is
    known only follows the feasible edge."""

    def __init__(self, prog, f):
        self.prog, self.f = prog, f
        self.P = _Paths(prog, f)
        self.g = self.P.g
        self.task = ([p for p in f.params if p != 'self'] or [None])[0]
        stores = self.P.cell_stores()
        self.marks = [m for m in stores if m['val'] is UNK or m['val']]
        self.frees = [m for m in stores if m['val'] is not UNK
                      and not m['val']]
        self.store_at = {m['node'].id: m for m in stores}
        self.rollback = {}          # loop head id -> (kind, source of indices)
        for m in self.frees:
            head, src = self._rollback_head(m)
            self.rollback[head] = (m['K'], src)
        self.terminals = None

    def _rollback_head(self, m):
        g, P, f = self.g, self.P, self.f
        idx = m['idx']
        why = 'its index is not the variable of a loop over the recorded ' \
              'indices'
        if isinstance(idx, ast.Name):
            ds = P.rdefs(idx.id, m['node'].id)
            if len(ds) == 1 and ds[0][0].kind == 'for' and \
                    isinstance(ds[0][0].ast.target, ast.Name) and \
                    ds[0][0].id in m['node'].loops:
                h = ds[0][0]
                it = h.ast.iter
                src = None
                if self._key(it) is not None and \
                        root_name(it) not in f.params:
                    src = ('name', self._key(it))
                elif unparse(P.canon(it, h.id)) == "%s['slots'][0][%r]" % (
                        self.task, m['K']):
                    src = ('slots', None)
                if src is None:
                    why = 'the loop does not iterate a list of indices'
                elif not _every_iteration_passes(g, h.id, m['node'].id):
                    why = 'not every iteration of the loop frees its cell'
                else:
                    return h.id, src
        raise AnalysisError('UNRECOGNISED-IDIOM %s: `%s` frees a cell inside '
                            'the allocation, but %s' % (f.where, short(
                                m['stmt'], 50), why))

    # --------------------------------------------------------------------------
    @staticmethod
    def _truth_of(e, b):
        """truth of test atom e under the bindings b, or None"""
        def val(x):
            if isinstance(x, ast.Constant):
                return ('c', x.value)
            k = _AllocFlow._key(x)
            return b.get(k) if k is not None else None
        k = _AllocFlow._key(e)
        if k is not None:
            v = b.get(k)
            if v is not None and v[0] == 'c':
                return bool(v[1])
            return None
        if isinstance(e, ast.Compare) and len(e.ops) == 1:
            l, r = val(e.left), val(e.comparators[0])
            if l is None or r is None:
                return None
            op = e.ops[0]
            if not isinstance(op, (ast.Is, ast.IsNot, ast.Eq, ast.NotEq)):
                return None
            neg = isinstance(op, (ast.IsNot, ast.NotEq))
            if l[0] == 'c' and r[0] == 'c':
                if isinstance(op, (ast.Is, ast.IsNot)) and not (
                        l[1] is None or r[1] is None or
                        isinstance(l[1], bool) or isinstance(r[1], bool)):
                    return None
                same = type(l[1]) is type(r[1]) and l[1] == r[1]
                return same != neg
            if 'obj' in (l[0], r[0]) and 'c' in (l[0], r[0]):
                c = l if l[0] == 'c' else r
                if c[1] is None or isinstance(c[1], (bool, int, str)):
                    return neg              # a list is none of those
            if l[0] == 'obj' and r[0] == 'obj' and \
                    isinstance(op, (ast.Is, ast.IsNot)):
                return (l == r) != neg
        return None

    @staticmethod
    def _key(e):
        """key of a local container: a name, or a constant-key path below a
        local name (`alloc['cores']`)"""
        if isinstance(e, ast.Name):
            return e.id
        if isinstance(e, (ast.Subscript, ast.Attribute)) and \
                _const_path(e) and root_name(e) != 'self':
            return unparse(e)
        return None

    @staticmethod
    def _pure(e):
        return all(isinstance(n, (ast.Name, ast.Constant, ast.Compare,
                                  ast.BoolOp, ast.UnaryOp, ast.expr_context,
                                  ast.cmpop, ast.boolop, ast.unaryop))
                   for n in ast.walk(e))

    @staticmethod
    def _forget(b, key):
        """remembered test outcomes that read the local `key` is rooted in"""
        root = key.split('[')[0].split('.')[0]
        for k in [k for k, v in b.items() if k.startswith('?') and
                  root in v[2]]:
            del b[k]

    @staticmethod
    def _drop(b, key):
        for k in [k for k in b if k == key or _is_prefix(key, k)]:
            del b[k]
        b.pop('@' + key, None)      # index recorded ahead of its mark
        _AllocFlow._forget(b, key)

    def _bind(self, b, key, value, nid):
        self._drop(b, key)
        vk = self._key(value)
        if _is_new_list(value):
            b[key] = ('obj', (nid, key))
        elif isinstance(value, ast.Dict) and all(
                isinstance(k, ast.Constant) for k in value.keys):
            b[key] = ('dict', (nid, key))
            for k, v in zip(value.keys, value.values):
                self._bind(b, '%s[%r]' % (key, k.value), v, nid)
        elif isinstance(value, ast.Call) and isinstance(value.func, ast.Name) \
                and value.func.id == 'dict' and not value.args and \
                all(kw.arg for kw in value.keywords):
            b[key] = ('dict', (nid, key))
            for kw in value.keywords:
                self._bind(b, '%s[%r]' % (key, kw.arg), kw.value, nid)
        elif vk is not None and vk in b:
            for k, v in [(k, v) for k, v in b.items()
                         if k == vk or _is_prefix(vk, k)]:
                b[key + k[len(vk):]] = v
        elif isinstance(value, ast.Constant) and (
                value.value is None or
                isinstance(value.value, (bool, int, str))):
            b[key] = ('c', value.value)

    def _members(self, b, key):
        """[(constant key, value)] of the dict bound to `key`"""
        out = []
        for k, v in b.items():
            if k.startswith(key + '[') and k.endswith(']') and \
                    k.count('[') == key.count('[') + 1:
                try:
                    out.append((ast.literal_eval(k[len(key) + 1:-1]), v))
                except Exception:                           # noqa
                    pass
        return out

    @staticmethod
    def _lose(marks, names):
        """an index variable is re-bound: marks not yet recorded under it
        never will be"""
        return frozenset((K, it, nm, ('lost' if r is None and nm & names
                                      else r)) for K, it, nm, r in marks)

    @staticmethod
    def _record(marks, arg, obj):
        t = unparse(arg)
        return frozenset((K, it, nm, (obj if r is None and it == t else r))
                         for K, it, nm, r in marks)

    def _slots_of(self, value, b):
        el = value.elts[0] if isinstance(value, (ast.List, ast.Tuple)) and \
            len(value.elts) == 1 else None
        pairs = []
        ek = self._key(el) if el is not None else None
        if isinstance(el, ast.Dict):
            for k, v in zip(el.keys, el.values):
                if isinstance(k, ast.Constant):
                    pairs.append((k.value, v))
        elif isinstance(el, ast.Call) and el.keywords and not el.args:
            pairs = [(kw.arg, kw.value) for kw in el.keywords if kw.arg]
        elif ek is not None and b.get(ek, ('?',))[0] == 'dict':
            return frozenset(self._members(b, ek))
        else:
            raise AnalysisError("UNRECOGNISED-IDIOM %s: task['slots'] is not "
                                "a one-element list of a dict / Slot(...)"
                                % self.f.where)
        out = []
        for k, v in pairs:
            vk = self._key(v)
            out.append((k, b.get(vk, ('?', unparse(v)))
                        if vk is not None else ('?', unparse(v))))
        return frozenset(out)

    def transfer(self, node, edge, st):
        if edge.label == 'exc':
            return st                       # the effect did not take place
        binds, marks, slots, ret = st
        a = node.ast
        if node.kind == 'test':
            b = dict(binds)
            t = self._truth_of(a, b)
            fk = None
            if t is None and self._pure(a):
                # a test on locals only: its outcome is remembered until
                # one of them is re-bound (correlated tests)
                fk = '?' + unparse(a)
                if fk in b:
                    t = b[fk][1]
            if t is not None:
                return st if (edge.label == 'T') == t else None
            if fk is None:
                return st
            b[fk] = ('t', edge.label == 'T', _names(a))
            return (frozenset(b.items()), marks, slots, ret)
        if node.kind == 'for':
            b = dict(binds)
            rb = self.rollback.get(node.id)
            if rb is not None:
                K, src = rb
                obj = b.get(src[1]) if src[0] == 'name' else \
                    dict(slots or ()).get(K)
                marks = frozenset(m for m in marks
                                  if not (m[0] == K and m[3] == obj))
            if edge.label == 'iter':
                names = frozenset(stores_in_target(a.target))
                marks = self._lose(marks, names)
                for nm in names:
                    self._drop(b, nm)
            return (frozenset(b.items()), marks, slots, ret)
        if node.kind == 'with':
            b = dict(binds)
            for it in a.items:
                if it.optional_vars is not None:
                    for nm in stores_in_target(it.optional_vars):
                        self._drop(b, nm)
            return (frozenset(b.items()), marks, slots, ret)
        if node.kind != 'stmt' or a is None:
            return st
        b = dict(binds)
        if isinstance(a, ast.Assign):
            for t in a.targets:
                if isinstance(t, ast.Name):
                    marks = self._lose(marks, frozenset([t.id]))
                    self._bind(b, t.id, a.value, node.id)
                elif isinstance(t, (ast.Tuple, ast.List, ast.Starred)):
                    names = frozenset(stores_in_target(t))
                    marks = self._lose(marks, names)
                    for nm in names:
                        self._drop(b, nm)
                elif isinstance(t, ast.Subscript) and self.task and \
                        unparse(self.P.canon(t, node.id)) == \
                        "%s['slots']" % self.task:
                    slots = self._slots_of(a.value, b)
                elif self._key(t) is not None and \
                        root_name(t) not in self.f.params:
                    self._bind(b, self._key(t), a.value, node.id)
            m = self.store_at.get(node.id)
            if m is not None and (m['val'] is UNK or m['val']):
                rec = None
                idx = m['idx']
                if isinstance(idx, ast.Name):
                    # a loop over the list of indices itself: recorded by
                    # construction
                    ds = self.P.rdefs(idx.id, node.id)
                    if len(ds) == 1 and ds[0][0].kind == 'for' and \
                            isinstance(ds[0][0].ast.target, ast.Name) and \
                            self._key(ds[0][0].ast.iter) is not None:
                        rec = b.get(self._key(ds[0][0].ast.iter))
                        if rec is not None and rec[0] != 'obj':
                            rec = None
                    if rec is None:
                        # `found.append(n)` right before `cell[n] = 1`: the
                        # index (not re-bound since) is recorded already
                        rec = b.get('@' + idx.id)
                marks = marks | {(m['K'], unparse(idx), _names(idx), rec)}
        elif isinstance(a, (ast.AugAssign, ast.AnnAssign)):
            t = a.target
            tk = self._key(t)
            if tk is not None:
                if isinstance(a, ast.AugAssign) and \
                        isinstance(a.op, ast.Add) and \
                        isinstance(a.value, (ast.List, ast.Tuple)) and \
                        b.get(tk, ('?',))[0] == 'obj':
                    for x in a.value.elts:
                        marks = self._record(marks, x, b[tk])
                    self._forget(b, tk)
                elif isinstance(a, ast.AnnAssign) and a.value is not None:
                    marks = self._lose(marks, frozenset([tk]))
                    self._bind(b, tk, a.value, node.id)
                else:
                    marks = self._lose(marks, frozenset([tk]))
                    self._drop(b, tk)
        elif isinstance(a, ast.Expr) and isinstance(a.value, ast.Call):
            c = a.value
            fn = c.func
            if isinstance(fn, ast.Attribute) and \
                    fn.attr in ('append', 'insert', 'extend', 'add') and \
                    c.args and not c.keywords:
                rk = self._key(fn.value)
                obj = b.get(rk, ('?', rk)) if rk is not None else \
                    ('?', unparse(fn.value))
                if rk is not None:
                    self._forget(b, rk)
                arg = c.args[-1]
                args = arg.elts if fn.attr == 'extend' and isinstance(
                    arg, (ast.List, ast.Tuple)) else [arg]
                for x in args:
                    before = marks
                    marks = self._record(marks, x, obj)
                    if marks == before and isinstance(x, ast.Name) and \
                            fn.attr in ('append', 'add'):
                        b['@' + x.id] = obj
            elif call_name(c) == 'self._dealloc' and c.args and \
                    unparse(c.args[0]) == self.task and slots:
                sl = dict(slots)
                marks = frozenset(m for m in marks
                                  if not (m[3] is not None and
                                          sl.get(m[0]) == m[3]))
        elif isinstance(a, ast.Return):
            v = a.value
            if v is None:
                ret = 'F'
            elif isinstance(v, ast.Constant):
                ret = 'T' if v.value else 'F'
            elif self._key(v) is not None and \
                    b.get(self._key(v), ('?',))[0] == 'c':
                ret = 'T' if b[self._key(v)][1] else 'F'
            else:
                ret = '?'
        return (frozenset(b.items()), marks, slots, ret)

    def run(self):
        if self.terminals is not None:
            return self.terminals
        g = self.g
        init = (frozenset(), frozenset(), None, None)
        try:
            ex = Exploration(g, g.entry.id, init, self.transfer,
                             max_states=60000)
        except RuntimeError as e:
            raise AnalysisError('%s: %s' % (self.f.where, e))
        self.ex = ex
        self.terminals = ex.terminals
        return self.terminals


_FLOWS = {}
_HOISTED = {}


def _hoist_helper_calls(finfo, inl):
    """`x = [{'a': self._h(p), 'b': self._h(q)}]` -> `t1 = self._h(p); t2 =
    self._h(q); x = [{'a': t1, 'b': t2}]` for calls of freshly extracted
    helpers that sit inside a display / constructor call whose other leaves
    are names and constants only (nothing else is evaluated that a helper
    could influence; evaluation order of the helper calls is kept).  The
    statement-level calls this produces are what the engine's inliner
    handles.  Returns the number of calls hoisted."""
    count = [0]

    def simple(e):
        return isinstance(e, (ast.Constant, ast.Name))

    def scan(e, calls):
        if simple(e):
            return True
        if isinstance(e, ast.Call):
            if any(isinstance(a, ast.Starred) for a in e.args) or \
                    any(k.arg is None for k in e.keywords):
                return False
            if inl.callee(finfo, e) is not None:
                if all(simple(a) for a in e.args) and \
                        all(simple(k.value) for k in e.keywords):
                    calls.append(e)
                    return True
                return False
            if isinstance(e.func, ast.Name):
                return all(scan(a, calls) for a in e.args) and \
                    all(scan(k.value, calls) for k in e.keywords)
            return False
        if isinstance(e, (ast.List, ast.Tuple, ast.Set)):
            return all(scan(x, calls) for x in e.elts)
        if isinstance(e, ast.Dict):
            return all(k is not None and scan(k, calls) and scan(v, calls)
                       for k, v in zip(e.keys, e.values))
        return False

    def do_block(stmts):
        out = []
        for s in stmts:
            for fld in ('body', 'orelse', 'finalbody'):
                if hasattr(s, fld) and isinstance(getattr(s, fld), list) \
                        and not isinstance(s, (ast.FunctionDef,
                                               ast.AsyncFunctionDef,
                                               ast.ClassDef)):
                    setattr(s, fld, do_block(getattr(s, fld)))
            for h in getattr(s, 'handlers', ()):
                h.body = do_block(h.body)
            v = None
            if isinstance(s, ast.Assign) and len(s.targets) == 1:
                v = s.value
            elif isinstance(s, (ast.Return, ast.Expr)):
                v = s.value
            calls = []
            if v is None or isinstance(v, ast.Call) and \
                    inl.callee(finfo, v) is not None or \
                    not scan(v, calls) or not calls:
                out.append(s)
                continue
            names = {}
            for c in calls:
                count[0] += 1
                nm = 'hoisted__%d' % count[0]
                names[id(c)] = nm
                a = ast.Assign(targets=[ast.Name(id=nm, ctx=ast.Store())],
                               value=c, lineno=s.lineno)
                out.append(ast.copy_location(a, s))

            class T(ast.NodeTransformer):
                def visit_Call(self, n):
                    if id(n) in names:
                        return ast.copy_location(
                            ast.Name(id=names[id(n)], ctx=ast.Load()), n)
                    return self.generic_visit(n)
            s.value = T().visit(s.value)
            out.append(s)
        for n in out:
            ast.fix_missing_locations(n)
        return out
    finfo.node.body = do_block(finfo.node.body)
    return count[0]


def _nested_helper_call(fa, probe):
    for s in ast.walk(fa.node):
        if isinstance(s, (ast.Assign, ast.Expr, ast.Return)) and \
                s.value is not None:
            for c in ast.walk(s.value):
                if c is not s.value and isinstance(c, ast.Call) and \
                        probe.callee(fa, c) is not None:
                    return True
    return False


def _alloc_view(prog):
    """the program in which R20.2 / R20.8 read DefaultWorker._alloc: the
    program itself, or - when _alloc hands the marking to a freshly extracted
    helper that is called inside the expression that builds task['slots']
    (a call position the engine's inliner does not handle) - a copy in which
    those calls are hoisted into locals and the helper is inlined"""
    k = id(prog)
    if k in _HOISTED and _HOISTED[k][0] is prog:
        return _HOISTED[k][1]
    _HOISTED.clear()
    view = prog
    try:
        from ..normalize import Inliner, inventory
        known = {rel: set(v) for rel, v in inventory().items()}
        fa = prog.method(WD[0], WD[1], '_alloc')
        probe = Inliner(prog, known)
        nested = _nested_helper_call(fa, probe)
        if nested:
            # (the other modules' trees are shared: building a model does
            # not change a canonical tree)
            trees = {rel: m.tree for rel, m in prog.modules.items()}
            trees[WD[0]] = copy.deepcopy(trees[WD[0]])
            P = type(prog)
            p2 = P(prog.root, overlay=prog.overlay, trees=trees)
            f2 = p2.method(WD[0], WD[1], '_alloc')
            inl = Inliner(p2, known)
            if _hoist_helper_calls(f2, inl):
                # the model refers to the old statement lists: rebuild, then
                # inline the (now statement-level) helper calls
                p3 = P(prog.root, overlay=prog.overlay, trees=trees)
                f3 = p3.method(WD[0], WD[1], '_alloc')
                inl = Inliner(p3, known)
                if inl.run_function(f3):
                    view = P(prog.root, overlay=prog.overlay, trees=trees)
    except AnalysisError:
        view = prog
    _HOISTED[k] = (prog, view)
    return view


def _alloc_flow(prog):
    fa = prog.method(WD[0], WD[1], '_alloc')
    k = id(fa.node)
    if k not in _FLOWS:
        _FLOWS.clear()
        _FLOWS[k] = (fa.node, _AllocFlow(prog, fa))
    return _FLOWS[k][1]


def _rebinds_resources(prog):
    """methods of DefaultWorker (other than __init__) that re-bind
    self._resources or one of its lists as a whole"""
    W = prog.cls(*WD)
    out = []
    for mname, m in sorted(W.methods.items()):
        if mname == '__init__':
            continue
        for f in all_funcs(m):
            for kind, target, stmt in I.stores(f.node):
                t = unparse(target)
                if kind in ('assign', 'aug', 'del') and (
                        t == RES or (t.startswith(RES + '[') and
                                     t.count('[') == 1)):
                    out.append((f, stmt))
    return out


def r20_2(prog, rep, rid='R20.2'):
    rep.rule(rid, 'DefaultWorker._alloc marks only indices it tested free, '
             'records exactly those in task[\'slots\'], and _dealloc frees the '
             'recorded indices of the same kind', minimum=10)
    prog = _alloc_view(prog)
    fa = prog.method(WD[0], WD[1], '_alloc')
    fd = prog.method(WD[0], WD[1], '_dealloc')
    rep.saw(fa)
    rep.saw(fd)
    for f, stmt in _rebinds_resources(prog):
        raise AnalysisError('UNRECOGNISED-IDIOM %s: `%s` replaces an occupancy '
                            'list as a whole' % (f.where, short(stmt, 60)))
    A = _alloc_flow(prog)
    P, ga = A.P, A.g
    PD = _Paths(prog, fd)
    gd = PD.g
    am = A.marks
    dm = PD.cell_stores()
    if len(am) < 2 or len(dm) < 1:
        raise AnalysisError('R20.2: marking statements not found in %s / %s'
                            % (fa.where, fd.where))
    free_val = {}
    for m in dm:
        free_val[m['K']] = m['val']
    tested_only = {}    # kind whose cell is tested free where another is marked
    for m in am:
        K, idx, v, node, stmt = m['K'], m['idx'], m['val'], m['node'], \
            m['stmt']
        it = unparse(idx)
        fv = free_val.get(K, 0)
        rep.check(v is not UNK and bool(v) and not fv, rid, fa,
                  '%s index is marked with a busy value (%r) distinct from '
                  'the free value (%r)' % (K, v, fv), construct=stmt,
                  message='_alloc marks %s with %r while _dealloc writes %r: '
                  'busy and free are not distinguishable by the free test'
                  % (K, v, fv), loc=fa.loc(stmt),
                  history='two requests of one %s each: the second is given '
                  'the index the first still uses' % K[:-1])
        # (a) a free test of the same cell guards the mark
        verdict = None
        other_kind = None       # a test of the cell [n] of another kind
        for tid, lab in guards(ga, node.id):
            a = ga.nodes[tid].ast
            free_on = None
            hit = P.cell(a, tid)
            if hit is not None:
                cand, free_on = hit, 'F'
            elif isinstance(a, ast.Compare) and len(a.ops) == 1:
                l, r = a.left, a.comparators[0]
                hl, hr = P.cell(l, tid), P.cell(r, tid)
                if (hl is None) == (hr is None):
                    continue
                cand, other = (hl, r) if hl is not None else (hr, l)
                ov = prog.fold(fa.module, other, fa.cls)
                eq = isinstance(a.ops[0], (ast.Eq, ast.Is))
                ne = isinstance(a.ops[0], (ast.NotEq, ast.IsNot))
                if ov is UNK or not (eq or ne) or (ov != fv and ov != v):
                    if cand[0] == K and unparse(cand[1]) == it:
                        raise AnalysisError('UNRECOGNISED-IDIOM %s: free test '
                                            '%s' % (fa.where, short(a)))
                    continue
                free_on = ('T' if eq else 'F') if ov == fv else \
                    ('F' if eq else 'T')
            else:
                continue
            if cand[0] != K and unparse(cand[1]) == it and lab == free_on \
                    and P.same_binding(_names(idx), tid, node.id):
                other_kind = cand[0]
            if cand[0] != K or unparse(cand[1]) != it or \
                    not P.same_binding(_names(idx), tid, node.id):
                continue
            verdict = 'ok' if lab == free_on else (verdict or 'wrong')
        if verdict is None and other_kind is not None:
            tested_only.setdefault(other_kind, (K, it, stmt))
        if verdict is None:
            # an index that is not a plain loop index was chosen somehow:
            # by a test this analysis does not see
            for nm in _names(idx):
                ds = P.rdefs(nm, node.id)
                plain = len(ds) == 1 and ds[0][0].kind == 'for' and \
                    isinstance(ds[0][0].ast.iter, ast.Call) and \
                    call_name(ds[0][0].ast.iter) in ('range', 'enumerate')
                if not plain:
                    raise AnalysisError(
                        'UNRECOGNISED-IDIOM %s: the index `%s` of the cell '
                        'marked by `%s` is not the index of a loop over '
                        'range() / enumerate(): cannot decide whether the '
                        'cell was tested free' % (fa.where, nm,
                                                  short(stmt, 50)))
        rep.check(verdict == 'ok', rid, fa, 'the mark of %s[%s] is guarded '
                  'by a free test of the same cell' % (K, it),
                  construct='guard:%s' % K,
                  message='_alloc marks %s[%r][%s] busy %s: a %s that another '
                  'request holds is handed out again'
                  % (RES, K, it, 'under a test of that cell with the wrong '
                     'polarity' if verdict == 'wrong' else 'under a free '
                     'test of %s[%r][%s], a cell of another kind (the kind '
                     'tested and the kind marked differ)' % (RES, other_kind,
                                                             it)
                     if other_kind is not None else 'without testing '
                     'that the cell is free', K[:-1]),
                  loc=fa.loc(stmt),
                  history='worker with 2 cores, request A holds core 0; '
                  'request B (1 core) is given core 0 as well')
    # (b), (c): over all paths
    terms = A.run()
    rep.stat('paths_enumerated', A.ex.states)
    kinds = sorted({m['K'] for m in am})
    unrec, badslot, slot_seen = {}, {}, set()
    for t in terms:
        binds, marks, slots, ret = t.state
        if t.node != ga.exit.id:
            continue
        for K, it, nm, rec in marks:
            if rec is None or rec == 'lost':
                unrec.setdefault(K, (it, t))
        if ret != 'T':
            continue            # failure exits: R20.8
        sl = dict(slots or ())
        slot_seen |= set(sl)
        for K, it, nm, rec in marks:
            if rec is None or rec == 'lost':
                continue
            if rec[0] != 'obj' or (K in sl and sl[K][0] == '?'):
                raise AnalysisError(
                    "UNRECOGNISED-IDIOM %s: cannot tell which list receives "
                    "the marked %s indices / is stored in task['slots'] (%s)"
                    % (fa.where, K, rec[1] if rec[0] != 'obj' else sl[K][1]))
            if sl.get(K) != rec:
                badslot.setdefault(K, (sl.get(K), t))
    if not any(t.node == ga.exit.id and t.state[3] == 'T' and t.state[1]
               for t in terms):
        raise AnalysisError("UNRECOGNISED-IDIOM %s: no path marks a cell and "
                            "returns a true value" % fa.where)
    slot_stmt = [s for k, tg, s in I.stores(fa.node) if k == 'assign' and
                 unparse(tg).endswith("['slots']")]
    if not slot_stmt:
        raise AnalysisError("UNRECOGNISED-IDIOM %s: task['slots'] is not "
                            "assigned" % fa.where)
    for K in kinds:
        st = [m['stmt'] for m in am if m['K'] == K][0]
        it = [unparse(m['idx']) for m in am if m['K'] == K][0]
        rep.check(K not in unrec, rid, fa, 'the marked %s index is appended '
                  'to a result list on every path' % K, construct='record:%s'
                  % K, message='_alloc marks %s[%r][%s] busy but does not '
                  'record the index in a list on every path: the index is '
                  'never given back' % (RES, K, it), loc=fa.loc(st),
                  path=A.ex.literals(unrec[K][1])[-8:] if K in unrec else None,
                  history='every request leaks the %s it was given; after '
                  'n requests the worker blocks forever' % K)
    for K in kinds:
        if K in unrec:
            continue
        got = badslot.get(K)
        rep.check(got is None, rid, fa,
                  "task['slots'][0][%r] is the list of marked %s" % (K, K),
                  construct="slots:%s" % K,
                  message="_alloc returns a true value on a path where "
                  "task['slots'][0][%r] is %s instead of the list that "
                  "received the marked %s indices: _dealloc frees other "
                  "indices than those marked" % (
                      K, 'not set' if not got or got[0] is None else
                      'another list' if got[0][0] == 'obj' else
                      repr(got[0][1]), K),
                  loc=fa.loc(slot_stmt[0]),
                  path=A.ex.literals(got[1])[-8:] if got else None,
                  history='request with 1 core and 1 gpu on a 4-core/1-gpu '
                  'worker: on completion the wrong cells are freed; the '
                  'marked ones stay busy forever')
    # dealloc side
    task_d = ([p for p in fd.params if p != 'self'] or [None])[0]
    seen_kinds = set()
    for m in dm:
        K, idx, v, node, stmt = m['K'], m['idx'], m['val'], m['node'], \
            m['stmt']
        ok = False
        why = 'it is not inside a loop over the recorded indices'
        ds = PD.rdefs(idx.id, node.id) if isinstance(idx, ast.Name) else []
        if len(ds) == 1 and ds[0][0].kind == 'for' and \
                isinstance(ds[0][0].ast.target, ast.Name) and \
                ds[0][0].id in node.loops:
            h = ds[0][0]
            it = PD.canon(h.ast.iter, h.id)
            if not (isinstance(it, ast.Subscript) and
                    isinstance(it.slice, ast.Constant) and
                    unparse(it.value) == "%s['slots'][0]" % task_d):
                why = "the loop does not iterate task['slots'][0][kind]"
            elif it.slice.value != K:
                why = "the loop iterates the recorded %r indices" \
                      % it.slice.value
            elif not must_pass(gd, gd.entry.id, gd.exit.id, [h.id]):
                why = 'the loop is skipped on some path'
            else:
                ok = True
        seen_kinds.add(K)
        rep.check(ok and not v and v is not UNK, rid, fd,
                  "_dealloc frees %s[%r][i] for i in task['slots'][0][%r]"
                  % (RES, K, K), construct=stmt,
                  message='_dealloc writes %r to %s[%r][%s] but %s: the %s '
                  'marked by _alloc are not the ones released'
                  % (v, RES, K, unparse(idx), why if not ok else
                     'the value is not the free value', K),
                  loc=fd.loc(stmt),
                  history='request with 2 cores and 1 gpu completes: its '
                  'cores stay busy (or foreign cells are freed and handed to '
                  'a second request while still in use)')
    for K in kinds:
        rep.check(K in seen_kinds and K in slot_seen, rid, fd,
                  'kind %r: marked in _alloc, recorded in slots, freed in '
                  '_dealloc' % K, construct='symmetry:%s' % K,
                  message='%r is marked busy by _alloc but %s' % (
                      K, 'never freed by _dealloc' if K not in seen_kinds
                      else "not recorded in task['slots']"),
                  loc=fd.loc(),
                  history='each request with %s leaks them; the worker '
                  'eventually refuses every request' % K)
    # a kind which is handed out (tested free, recorded in task['slots'],
    # freed by _dealloc) but which no statement of _alloc marks busy
    for K in sorted((set(tested_only) | seen_kinds) - set(kinds)):
        how = ' and '.join(
            w for c, w in ((K in tested_only, 'tested free'),
                           (K in slot_seen, "recorded in task['slots']"),
                           (K in seen_kinds, 'freed by _dealloc')) if c)
        tk = tested_only.get(K)
        rep.bad(rid, fa, 'unmarked:%s' % K,
                "_alloc never marks a cell of %s[%r] busy although %s are %s"
                "%s: the kind tested / recorded and the kind marked do not "
                "agree, so every request is given the same %s and "
                "_dealloc's `assert %s[%r][n]` trips"
                % (RES, K, K, how,
                   ' (the store under the free test of %s[%r][%s] writes '
                   '%s[%r][%s])' % (RES, K, tk[1], RES, tk[0], tk[1])
                   if tk else '', K, RES, K),
                fa.loc(tk[2]) if tk else fa.loc(),
                history='worker with 4 cores / 2 %s; requests a and b ask for '
                'one of the %s each and b arrives while a is running: both '
                'get index 0; when a completes, _dealloc fails its assert'
                % (K, K))


# ------------------------------------------------------------------------------
# R20.8  all-or-nothing allocation
#
def r20_8(prog, rep, rid='R20.8'):
    rep.rule(rid, 'DefaultWorker._alloc is all-or-nothing: on no path that '
             'ends with a false result (or an explicit failure) is a cell '
             'still marked busy - every "does not fit" test comes before the '
             'first mark, or the failing path frees what it marked',
             minimum=2)
    prog = _alloc_view(prog)
    fa = prog.method(WD[0], WD[1], '_alloc')
    rep.saw(fa)
    A = _alloc_flow(prog)
    g = A.g
    if len(A.marks) < 1:
        raise AnalysisError('R20.8: marking statements not found in %s'
                            % fa.where)
    # the caller polls: a false result means "nothing taken, ask again"
    W = prog.cls(*WD)
    polls = any(call_name(c) == 'self._alloc' for m in W.methods.values()
                for c in calls_in(m.node))
    if not polls:
        raise AnalysisError('UNRECOGNISED-IDIOM %s: _alloc is not called by '
                            'the worker' % W.where)
    terms = A.run()
    bad = {}
    for t in terms:
        binds, marks, slots, ret = t.state
        if not marks:
            continue
        if t.node == g.exit.id:
            if ret == 'T':
                continue
            if ret == '?':
                raise AnalysisError('UNRECOGNISED-IDIOM %s: the truth of the '
                                    'value returned after cells were marked '
                                    'cannot be evaluated' % fa.where)
            for K, it, nm, rec in marks:
                bad.setdefault(K, ('returns a false value', t))
        else:
            # an explicit failure (assert / raise): the handler of the caller
            # can only free what task['slots'] names
            sl = dict(slots or ())
            for K, it, nm, rec in marks:
                if rec is None or sl.get(K) != rec:
                    bad.setdefault(K, ('fails (assert / raise)', t))
    fd = prog.method(WD[0], WD[1], '_dealloc')
    for K in sorted({m['K'] for m in _Paths(prog, fd).cell_stores()} -
                    {m['K'] for m in A.marks}):
        # (R20.2 reports that the kind is handed out without being marked)
        rep.ok(rid, fa, 'no cell of %s is marked by _alloc: nothing is left '
               'marked on a refusing path' % K, fa.loc())
    for K in sorted({m['K'] for m in A.marks}):
        st = [m['stmt'] for m in A.marks if m['K'] == K][0]
        how, t = bad.get(K, (None, None))
        lits = A.ex.literals(t)[-8:] if t is not None else None
        rep.check(K not in bad, rid, fa, 'no path marks %s busy and then '
                  'refuses the request' % K, construct='atomic:%s' % K,
                  message='_alloc %s on a path where %s[%r] cells were already '
                  'marked busy and not freed again (task[\'slots\'] does not '
                  'name them, _request_cb just asks again): these %s belong '
                  'to no request and are never given back - a "does not fit" '
                  'test sits behind a mark%s'
                  % (how, RES, K, K, (' [path: %s]' % ' ; '.join(lits))
                     if lits else ''),
                  loc=fa.loc(st), path=lits,
                  history='worker with 4 cores and 2 gpus; request A holds '
                  'all of the kind that is tested later, request B needs both '
                  'kinds and is polled every 10 ms: each poll marks B\'s share '
                  'of the %s busy and returns False; after two polls none is '
                  'free, B and every request behind it wait forever, and the '
                  '%s stay busy after A is done' % (K, K))


# ------------------------------------------------------------------------------
# R20.3
#
def _queue_puts(f, attr):
    return [c for c in calls_in(f.node)
            if call_name(c) == 'self.%s.put' % attr]


def _list_def(f, name):
    out = [s.value for s in walk(f.node) if isinstance(s, ast.Assign) and
           any(isinstance(t, ast.Name) and t.id == name for t in s.targets)]
    return out


def r20_3(prog, rep, rid='R20.3'):
    rep.rule(rid, 'every way _dispatch ends puts one 6-tuple result for the '
             'task on the result queue (non-zero code and exception on '
             'timeout / dispatch error); the only consumer hands it to '
             '_result_cb, which frees the resources, copies the result '
             'fields and reports; a failing request is freed and reported',
             minimum=17)
    W = prog.cls(*WD)
    disp = prog.method(WD[0], WD[1], '_dispatch')
    rcb = prog.method(WD[0], WD[1], '_result_cb')
    rw = prog.method(WD[0], WD[1], '_result_watcher')
    rq = prog.method(WD[0], WD[1], '_request_cb')
    for f in (disp, rcb, rw, rq):
        rep.saw(f)
    # arity / order contract: _result_cb unpacks the queue item
    unpack = None
    for s in walk(rcb.node):
        if isinstance(s, ast.Assign) and isinstance(s.targets[0], ast.Tuple) \
                and isinstance(s.value, ast.Name) and \
                s.value.id in rcb.params:
            unpack = [unparse(e) for e in s.targets[0].elts]
    if not unpack or len(unpack) != 6:
        raise AnalysisError('UNRECOGNISED-IDIOM %s: result is not unpacked '
                            'into 6 names' % rcb.where)
    tvar = unpack[0]

    # (a) producers
    if len(disp.nested) != 1:
        raise AnalysisError('UNRECOGNISED-IDIOM %s: expected one nested '
                            'worker function' % disp.where)
    wp = list(disp.nested.values())[0]
    rep.saw(wp)
    producers = []
    for f in (wp, disp):
        for c in _queue_puts(f, '_result_queue'):
            producers.append((f, c))
    if not any(f is wp for f, c in producers):
        raise AnalysisError('R20.3: the worker function of %s puts no result'
                            % disp.where)
    for f, c in producers:
        a = c.args[0] if c.args else None
        shape = a
        if isinstance(a, ast.Name):
            ds = _list_def(f, a.id)
            shape = ds[-1] if ds else None
            if any(not (isinstance(x, (ast.List, ast.Tuple)) and
                        len(x.elts) == 6 and unparse(x.elts[0]) == 'task')
                   for x in ds):
                shape = None
        okshape = isinstance(shape, (ast.List, ast.Tuple)) and \
            len(shape.elts) == 6 and unparse(shape.elts[0]) == 'task'
        rep.check(okshape, rid, f, 'result item is [task, out, err, ret, val, '
                  'exc]: %s' % short(c, 50), construct=c,
                  message='%s puts %s on the result queue, which _result_cb '
                  'cannot unpack into (task, out, err, ret, val, exc): the '
                  'result watcher thread dies and no request is reported '
                  'any more' % (f.qual, short(shape, 60)), loc=f.loc(c),
                  history='first request that ends this way')
    # worker function: every normal path puts
    gw = cfg_of(wp)
    sw = I.stmt_node_map(gw)
    wputs = [sw[id(c)].id for f, c in producers if f is wp]
    rep.check(bool(wputs) and must_pass(gw, gw.entry.id, gw.exit.id, wputs),
              rid, wp, 'the worker function puts a result on every path '
              '(success and exception)', construct='producer:worker',
              message='%s has a path to its end that puts no result: the '
              'request is never reported and its cores are never freed'
              % wp.qual, loc=wp.loc(),
              history='a request whose call raises')
    # code / exception in the worker function by value
    _producer_values(prog, rep, rid, W, wp, [c for f, c in producers
                                             if f is wp], 'worker')
    # _dispatch: timeout branch and handler
    gdp = cfg_of(disp)
    sdp = I.stmt_node_map(gdp)
    dputs = [sdp[id(c)].id for f, c in producers if f is disp]
    ddefs = _single_defs(disp)

    def alive_label(e, lab='T', depth=0):
        """label of the out-edge of test e on which the process is still
        alive: `p.is_alive()`, a once-assigned local holding that call's
        result, or the negation of either"""
        if isinstance(e, ast.UnaryOp) and isinstance(e.op, ast.Not):
            return alive_label(e.operand, 'F' if lab == 'T' else 'T', depth)
        if isinstance(e, ast.Name) and e.id in ddefs and depth < 3:
            return alive_label(ddefs[e.id], lab, depth + 1)
        if isinstance(e, ast.Call) and isinstance(e.func, ast.Attribute) \
                and e.func.attr == 'is_alive' and not e.args:
            return lab
        return None

    alive = [(n, alive_label(n.ast)) for n in gdp.nodes if n.kind == 'test'
             and n.ast is not None and alive_label(n.ast)]
    if len(alive) != 1:
        raise AnalysisError('UNRECOGNISED-IDIOM %s: no single is_alive() '
                            'test' % disp.where)
    tdst = [e.dst for e in gdp.succ[alive[0][0].id]
            if e.label == alive[0][1]]
    alive = [alive[0][0]]
    ends = [gdp.exit.id, gdp.raise_.id]
    ok = bool(dputs) and all(
        not (set(ends) & gdp.reachable(t, skip_nodes=set(dputs),
                                       labels=NONEXC)) for t in tdst)
    rep.check(ok, rid, disp, 'the timeout branch puts a result',
              construct='producer:timeout',
              message='%s: when the worker process is still alive after the '
              'timeout it is killed but no result is put on the queue: the '
              'request is never reported and its cores are never freed'
              % disp.qual, loc=disp.loc(alive[0].ast),
              history='a request with timeout=1 that sleeps for 10 seconds')
    handlers = [n for n in gdp.nodes if n.kind == 'handler' and
                n.ast in _toplevel_try(disp).handlers]
    if not handlers:
        raise AnalysisError('UNRECOGNISED-IDIOM %s: no handler of the main '
                            'try' % disp.where)
    ok = all(not (set(ends) & gdp.reachable(h.id, skip_nodes=set(dputs),
                                            labels=NONEXC))
             for h in handlers)
    rep.check(ok, rid, disp, 'the dispatch error handler puts a result',
              construct='producer:handler',
              message='%s: the handler of a failed dispatch has a path that '
              'puts no result' % disp.qual, loc=disp.loc(handlers[0].ast),
              history='mp.Process() fails (out of pids): the request is '
              'never reported')
    _producer_values(prog, rep, rid, W, disp, [c for f, c in producers
                                               if f is disp], 'dispatch')

    # (b) single consumer
    gets = []
    for mname, m in W.methods.items():
        for f in all_funcs(m):
            for c in calls_in(f.node):
                if call_name(c) == 'self._result_queue.get':
                    gets.append((f, c))
    rep.check(len(gets) == 1 and gets[0][0] is rw, rid, rw,
              'the result queue has one consumer (_result_watcher)',
              construct='consumer',
              message='the result queue is read in %s: an item taken by '
              'another consumer never reaches _result_cb'
              % ', '.join(sorted({f.qual for f, _ in gets})), loc=rw.loc(),
              history='a result is consumed by the second reader: the '
              'request is not reported, its cores stay busy')
    grw = cfg_of(rw)
    srw = I.stmt_node_map(grw)
    okc = False
    for f, c in gets:
        if f is not rw:
            continue
        gn = srw[id(c)]
        tgt = gn.ast.targets[0].id if isinstance(gn.ast, ast.Assign) and \
            isinstance(gn.ast.targets[0], ast.Name) else None
        cbs = [srw[id(x)].id for x in calls_in(rw.node)
               if call_name(x) == 'self._result_cb' and x.args and
               unparse(x.args[0]) == tgt]
        if tgt and cbs and gn.loops:
            head = gn.loops[-1]
            r = set()
            for e in grw.succ[gn.id]:
                if e.label != 'exc':
                    r |= grw.reachable(e.dst, skip_nodes=set(cbs),
                                       labels=NONEXC)
            okc = head not in r and grw.exit.id not in r
    rep.check(okc, rid, rw, 'every item taken from the queue is passed to '
              '_result_cb', construct='consumer:cb',
              message='%s takes an item from the result queue and does not '
              'pass it to self._result_cb on every path' % rw.qual,
              loc=rw.loc(), history='any completed request')
    init = prog.method(WD[0], WD[1], '__init__')
    started = any(isinstance(c.func, ast.Attribute) and c.func.attr ==
                  'Thread' and unparse(kwarg(c, 'target')) ==
                  'self._result_watcher' for c in calls_in(init.node)) and \
        any(call_name(c).endswith('.start') and 'thread' in
            call_name(c).lower() for c in calls_in(init.node))
    rep.check(started, rid, init, 'the watcher thread is created and started '
              'in __init__', construct='consumer:thread',
              message='DefaultWorker.__init__ does not start a thread on '
              'self._result_watcher: results are never consumed',
              loc=init.loc(), history='first request: never reported')

    # (c) _result_cb
    gr = cfg_of(rcb)
    sr = I.stmt_node_map(gr)
    de = [sr[id(c)].id for c in calls_in(rcb.node)
          if call_name(c) == 'self._dealloc' and c.args and
          unparse(c.args[0]) == tvar]
    pu = [sr[id(c)].id for c in calls_in(rcb.node)
          if call_name(c) == 'self._res_put.put' and c.args and
          unparse(c.args[0]) == tvar]
    rep.check(bool(de) and bool(pu) and
              must_pass(gr, gr.entry.id, gr.exit.id, de) and
              must_pass(gr, gr.entry.id, gr.exit.id, pu) and
              all(must_pass(gr, gr.entry.id, p, de) for p in pu),
              rid, rcb, '_result_cb frees the resources, then reports the '
              'task', construct='result_cb:order',
              message='%s does not call self._dealloc(%s) before '
              'self._res_put.put(%s) on every path: the master can send the '
              'next request before the cores are free, or the cores are '
              'never freed' % (rcb.qual, tvar, tvar), loc=rcb.loc(),
              history='any completed request')
    fields = {'stdout': unpack[1], 'stderr': unpack[2], 'exit_code': unpack[3],
              'return_value': unpack[4], 'exception': '%s[0]' % unpack[5],
              'exception_detail': '%s[1]' % unpack[5]}
    for key, src in sorted(fields.items()):
        st = [s for s in walk(rcb.node) if isinstance(s, ast.Assign) and
              any(unparse(t) == "%s[%r]" % (tvar, key) for t in s.targets)]
        good = len(st) == 1 and unparse(st[0].value) == src and \
            all(must_pass(gr, gr.entry.id, p, [sr[id(st[0])].id])
                for p in pu)
        rep.check(good, rid, rcb, "task[%r] = %s before the report"
                  % (key, src), construct='result_cb:%s' % key,
                  message="%s reports the task with task[%r] %s: the master "
                  "maps the wrong value to the final state / the "
                  "application sees the wrong %s"
                  % (rcb.qual, key, 'set from `%s` instead of `%s`'
                     % (short(st[0].value, 30), src) if len(st) == 1
                     else 'not set exactly once', key), loc=rcb.loc(),
                  history='a request that prints to stdout and returns 0' if
                  key != 'exit_code' else 'a request that fails with exit '
                  'code 1 is reported with another code')

    # (d) failing request
    gq = cfg_of(rq)
    sq = I.stmt_node_map(gq)
    hs = [n for n in gq.nodes if n.kind == 'handler']
    loops = [n for n in gq.nodes if n.kind == 'for']
    if len(hs) != 1 or not loops or not hs[0].loops:
        raise AnalysisError('UNRECOGNISED-IDIOM %s: expected one handler '
                            'inside the per-task loop' % rq.where)
    lv = unparse(gq.nodes[hs[0].loops[-1]].ast.target)
    de = [sq[id(c)].id for c in calls_in(rq.node)
          if call_name(c) == 'self._dealloc' and c.args and
          unparse(c.args[0]) == lv]
    pu = [sq[id(c)].id for c in calls_in(rq.node)
          if call_name(c) == 'self._res_put.put' and c.args and
          unparse(c.args[0]) == lv]
    head = hs[0].loops[-1]

    def passes(via):
        if not via:
            return False
        r = gq.reachable(hs[0].id, skip_nodes=set(via), labels=NONEXC)
        return head not in r and gq.exit.id not in r
    rep.check(passes(de), rid, rq, 'a request that fails to start is freed',
              construct='request_cb:dealloc',
              message='%s: the handler of a failed start does not call '
              'self._dealloc(%s): the cores allocated for the request stay '
              'busy forever' % (rq.qual, lv), loc=rq.loc(hs[0].ast),
              history='mp.Process.start() fails for a request that was '
              'allocated 2 cores')
    rep.check(passes(pu), rid, rq, 'a request that fails to start is '
              'reported', construct='request_cb:report',
              message='%s: the handler of a failed start does not put the '
              'task on the result channel: the master waits for it forever'
              % (rq.qual,), loc=rq.loc(hs[0].ast),
              history='mp.Process.start() fails')


def _toplevel_try(f):
    ts = [s for s in f.node.body if isinstance(s, ast.Try)]
    if len(ts) != 1:
        raise AnalysisError('UNRECOGNISED-IDIOM %s: expected exactly one '
                            'top-level try statement, found %d'
                            % (f.where, len(ts)))
    return ts[0]


def _exc_status(v):
    if v is UNK or not isinstance(v, (list, tuple)):
        return 'unknown'
    if all(x is None for x in v):
        return 'none'
    return 'set'


def _producer_values(prog, rep, rid, W, f, puts, label):
    """on paths through a handler (worker) / on all paths (dispatch) the item
    put carries a non-zero code and an exception"""
    ids = {id(c) for c in puts}
    seen = []
    if not puts:
        return          # reported by the path obligations of the caller

    def observe(fn, node, env):
        if fn is not f or node.kind != 'stmt' or node.ast is None:
            return
        for c in calls_in(node.ast):
            if id(c) in ids:
                v = ip.ev(fn, c.args[0], env)
                seen.append((c, v, bool(env.get('@h'))))

    ip = Interp(prog, W, observe=observe)
    ip.run(f, {})
    rep.stat('interp_states', ip.states)
    fail = [(c, v) for c, v, h in seen if h or label == 'dispatch']
    if not fail:
        rep.bad(rid, f, 'producer-values:%s' % label, '%s: no path through '
                'the exception handler reaches a result put: a request whose '
                'call raises is never reported' % f.qual, f.loc(),
                history='a request whose call raises')
        return
    bad = None
    for c, v in fail:
        if not isinstance(v, (list, tuple)) or len(v) != 6:
            continue
        ret, exc = v[3], v[5]
        if ret is not UNK and isinstance(ret, (int, float)) and ret == 0:
            bad = (c, 'exit code 0')
        if _exc_status(exc) == 'none':
            bad = bad or (c, 'no exception')
    rep.check(bad is None, rid, f, 'failure results of the %s carry a '
              'non-zero code and the exception' % label,
              construct='producer-values:%s' % label,
              message='%s puts a result with %s on a path where the request '
              'failed (exception / timeout): the master maps it to DONE'
              % (f.qual, bad[1] if bad else ''), loc=f.loc(bad[0]) if bad
              else f.loc(),
              history='a request that raises (or times out) is reported '
              'with exit code 0 and ends DONE')


# ------------------------------------------------------------------------------
# R20.4
#
def r20_4(prog, rep, rid='R20.4'):
    rep.rule(rid, 'Master._result_cb: exit code 0 -> target state DONE, any '
             'other or missing code -> FAILED; the tasks are handed on exactly '
             'once per call', minimum=6)
    M = prog.cls(*MA)
    f = prog.method(MA[0], MA[1], '_result_cb')
    rep.saw(f)
    done = prog.const('states.py', 'DONE')
    failed = prog.const('states.py', 'FAILED')
    g = cfg_of(f)
    # the per-task variable: loop over the parameter
    loops = [n for n in g.nodes if n.kind == 'for' and
             isinstance(n.ast.target, ast.Name)]
    tvar = None
    for n in loops:
        for s in walk(n.ast):
            if isinstance(s, ast.Assign) and any(
                    isinstance(t, ast.Subscript) and
                    isinstance(t.slice, ast.Constant) and
                    t.slice.value == 'target_state' and
                    unparse(t.value) == n.ast.target.id for t in s.targets):
                tvar = n.ast.target.id
    if tvar is None:
        raise AnalysisError("UNRECOGNISED-IDIOM %s: no per-task assignment "
                            "to <task>['target_state']" % f.where)
    key = "%s['target_state']" % tvar
    for code, expect in ((0, done), (1, failed), (-9, failed), (None, failed)):
        seen = set()

        def observe(fn, node, env, seen=seen):
            if fn is f and node.kind == 'stmt' and \
                    isinstance(node.ast, ast.Assign):
                for t in node.ast.targets:
                    if _key_of(t) == key:
                        seen.add(ip.ev(fn, node.ast.value, env))

        ip = Interp(prog, M, observe=observe,
                    inputs={"%s['exit_code']" % tvar: code, key: None})
        ip.run(f, {})
        rep.stat('interp_states', ip.states)
        if UNK in seen and not {x for x in seen if x is not UNK} - {expect}:
            raise AnalysisError('UNRECOGNISED-IDIOM %s: target state for exit '
                                'code %r cannot be evaluated' % (f.where,
                                                                 code))
        rep.check(seen == {expect}, rid, f, 'exit code %r -> %s' % (code,
                                                                     expect),
                  construct='exit_code:%r' % (code,),
                  message='%s maps exit code %r of a request without target '
                  'state to %s; it must end %s'
                  % (f.qual, code, '/'.join(sorted(map(str, seen))) or
                     'nothing (target_state stays unset)', expect),
                  loc=f.loc(),
                  history='a worker reports a request with exit_code=%r: the '
                  'task ends %s' % (code, '/'.join(sorted(map(str, seen)))
                                    or 'without target state'))
    # one hand-on per call
    smap = I.stmt_node_map(g)
    adv = [c for c in calls_in(f.node) if I.is_handon(c)]
    nodes = [smap[id(c)] for c in adv]
    param = [p for p in f.params if p != 'self'][0]
    one = len(adv) >= 1 and \
        must_pass(g, g.entry.id, g.exit.id, [n.id for n in nodes]) and \
        all(not n.loops for n in nodes) and \
        all(not (set(m.id for m in nodes) &
                 (g.reachable(n.id) - {n.id})) for n in nodes) and \
        all(unparse(I.handon_thing(c)) == param for c in adv)
    rep.check(one, rid, f, 'every call hands the received tasks on exactly '
              'once', construct='handon:once',
              message='%s does not hand the received tasks on exactly once '
              'on every path (%d hand-on sites): a completed request is lost '
              'or forwarded twice' % (f.qual, len(adv)), loc=f.loc(),
              history='result_cb of a derived master raises: the tasks must '
              'still be handed on, once')
    for c in adv:
        st = I.handon_state(prog, f, c)
        push = I.flag(c, 'push', False)
        rep.check(st == prog.const('states.py',
                                   'AGENT_STAGING_OUTPUT_PENDING') and
                  push is True, rid, f, 'completed requests are pushed to '
                  'agent output staging', construct=c,
                  message='%s hands completed requests on as %s with push=%s: '
                  'they never reach output staging / the client'
                  % (f.qual, st, push), loc=f.loc(c),
                  history='any completed request stays in the master')


# ------------------------------------------------------------------------------
# R20.5
#
def r20_5(prog, rep, rid='R20.5'):
    rep.rule(rid, 'Master._submit_tasks routes TASK_EXECUTABLE to the agent '
             'pipeline and every other mode to the workers, one route per '
             'task; the agent scheduler forwards a task to raptor iff it has '
             'a raptor_id, is not a raptor worker and was not seen by raptor; '
             'backlogged raptor tasks are relayed once', minimum=15)
    f = prog.method(MA[0], MA[1], '_submit_tasks')
    rep.saw(f)
    M = prog.cls(*MA)
    exe = prog.fold(f.module, ast.Name(id='TASK_EXECUTABLE', ctx=ast.Load()))
    if exe is UNK:
        exe = prog.const('task_description.py', 'TASK_EXECUTABLE')
    ROUTES = {'self._submit_executable_tasks': 'the agent pipeline',
              'self._submit_raptor_tasks': 'the workers'}
    param = [p for p in f.params if p != 'self'][0]
    # by value: submit one task of each kind and look at the lists handed to
    # the two routes
    for mode, want, txt in ((exe, 'self._submit_executable_tasks',
                             'executable requests go to the agent pipeline'),
                            ('task.function', 'self._submit_raptor_tasks',
                             'all other modes go to the workers')):
        calls = []

        def observe(fn, node, env, calls=calls):
            if fn is not f or node.kind != 'stmt' or node.ast is None:
                return
            for c in calls_in(node.ast):
                if call_name(c) in ROUTES and c.args:
                    calls.append((call_name(c), ip.ev(fn, c.args[0], env), c))

        ip = _interp(prog, M, observe)
        task = {'uid': 'task.0000', 'description': {'mode': mode}}
        exits = ip.run(f, {param: [task]})
        rep.stat('interp_states', ip.states)
        got = {}
        for name, v, c in calls:
            if not isinstance(v, list) or any(
                    not isinstance(x, dict) or x.get('uid') is UNK
                    for x in v):
                raise AnalysisError('UNRECOGNISED-IDIOM %s: the list handed '
                                    'to %s cannot be evaluated' % (f.where,
                                                                   name[5:]))
            got.setdefault(name, set()).add(
                tuple(x.get('uid') for x in v))
        if not got:
            raise AnalysisError('UNRECOGNISED-IDIOM %s: the two submit calls '
                                'are not reached' % f.where)
        here = {n for n, vs in got.items() if any('task.0000' in v
                                                  for v in vs)}
        always = {n for n, vs in got.items() if all('task.0000' in v
                                                    for v in vs)}
        rep.check(here == {want} and always == {want}, rid, f, txt,
                  construct='route:%s' % ('exe' if mode == exe else 'other'),
                  message='%s: a request of mode %r is handed to %s; it must '
                  'go to %s only: %s' % (
                      f.qual, mode, ' and '.join(sorted(
                          ROUTES[n] for n in here)) or 'no route',
                      ROUTES[want],
                      'function requests are sent to the agent executor '
                      'which cannot run them / executable requests are sent '
                      'to the workers instead of the pilot\'s execution path'
                      if here else 'the request is dropped silently'),
                  loc=f.loc(),
                  history='master.submit_tasks of one request of mode %r'
                  % (mode,))
        rep.check(set(got) == set(ROUTES) and bool(exits), rid, f,
                  'both routes are served on every path (mode %s)' % mode,
                  construct='route:calls:%s' % ('exe' if mode == exe
                                                else 'other'),
                  message='%s does not call %s on the path taken for a '
                  'request of mode %r: that class of requests is never '
                  'submitted' % (f.qual, ' / '.join(
                      n[5:] for n in sorted(set(ROUTES) - set(got))), mode),
                  loc=f.loc(), history='any bulk containing such a request')
    fe = prog.method(MA[0], MA[1], '_submit_executable_tasks')
    fr = prog.method(MA[0], MA[1], '_submit_raptor_tasks')
    rep.saw(fe)
    rep.saw(fr)
    pe = [p for p in fe.params if p != 'self'][0]
    ok = False
    for c in calls_in(fe.node):
        if I.is_handon(c) and unparse(I.handon_thing(c)) == pe and \
                I.handon_state(prog, fe, c) == prog.const(
                    'states.py', 'AGENT_STAGING_INPUT_PENDING') and \
                I.flag(c, 'push', False) is True:
            ge = cfg_of(fe)
            se = I.stmt_node_map(ge)
            r = ge.reachable(ge.entry.id, skip_nodes={se[id(c)].id},
                             labels=NONEXC)
            gs = [(ge.nodes[t].ast, l) for t, l in guards(ge, se[id(c)].id)]
            ok = all(unparse(a) == pe for a, l in gs)
    rep.check(ok, rid, fe, 'executable requests are pushed to agent input '
              'staging', construct='route:agent',
              message='%s does not push its tasks as '
              'AGENT_STAGING_INPUT_PENDING (push=True) unconditionally: '
              'executable requests never enter the pilot\'s execution path'
              % fe.qual, loc=fe.loc(),
              history='a TASK_EXECUTABLE request submitted to the master')
    pr = [p for p in fr.params if p != 'self'][0]
    ok = False
    gr = cfg_of(fr)
    sr = I.stmt_node_map(gr)
    for c in calls_in(fr.node):
        if call_name(c) == 'self._req_put.put' and c.args and \
                unparse(c.args[0]) == pr:
            gs = [(gr.nodes[t].ast, l) for t, l in guards(gr, sr[id(c)].id)]
            ok = all(unparse(a) == pr and l == 'T' for a, l in gs)
    rep.check(ok, rid, fr, 'function-like requests are put on the worker '
              'request queue', construct='route:workers',
              message='%s does not put its (non-empty) task list on '
              'self._req_put: the requests never reach a worker'
              % fr.qual, loc=fr.loc(),
              history='a TASK_FUNCTION request submitted to the master')
    _r20_5_sched(prog, rep, rid)


def _r20_5_sched(prog, rep, rid):
    f = prog.method(SCH[0], SCH[1], '_schedule_incoming')
    rep.saw(f)
    g = cfg_of(f)
    smap = I.stmt_node_map(g)
    # the raptor container: what is put on self._raptor_queues[...]
    rcont = None
    for c in calls_in(f.node):
        if isinstance(c.func, ast.Attribute) and c.func.attr == 'put' and \
                unparse(c.func.value).startswith('self._raptor_queues[') and \
                c.args:
            a0 = c.args[0]
            if isinstance(a0, ast.Subscript):
                rcont = root_name(a0) or rcont
            elif isinstance(a0, ast.Name):
                # `for name, rtasks in to_raptor.items()` / `.values()`
                for lp in walk(f.node):
                    if isinstance(lp, ast.For) and a0.id in [
                            n.id for n in walk(lp.target)
                            if isinstance(n, ast.Name)] and \
                            isinstance(lp.iter, ast.Call) and \
                            isinstance(lp.iter.func, ast.Attribute) and \
                            lp.iter.func.attr in ('items', 'values') and \
                            isinstance(lp.iter.func.value, ast.Name):
                        rcont = lp.iter.func.value.id
    if rcont is None:
        raise AnalysisError('UNRECOGNISED-IDIOM %s: no put of a per-raptor '
                            'task list on self._raptor_queues[...]' % f.where)
    loop = None
    for c in calls_in(f.node):
        if isinstance(c.func, ast.Attribute) and c.func.attr == 'append' and \
                root_name(c.func.value) == rcont and smap[id(c)].loops:
            loop = smap[id(c)].loops[-1]
    if loop is None:
        raise AnalysisError('UNRECOGNISED-IDIOM %s: no per-task append to %s'
                            % (f.where, rcont))
    tvar = unparse(g.nodes[loop].ast.target)
    worker = prog.const('task_description.py', 'RAPTOR_WORKER')
    # local definitions td = task['description'], x = td.get('k')
    defs = {}
    n_defs = {}
    for s in walk(g.nodes[loop].ast):
        if isinstance(s, ast.Assign) and len(s.targets) == 1 and \
                isinstance(s.targets[0], ast.Name):
            defs[s.targets[0].id] = s.value
            n_defs[s.targets[0].id] = n_defs.get(s.targets[0].id, 0) + 1

    def descr_key(e, depth=0):
        """'raptor_id' for td.get('raptor_id') / task['description'][..]"""
        if isinstance(e, ast.Name) and e.id in defs and depth < 3:
            return descr_key(defs[e.id], depth + 1)
        k = None
        base = None
        if isinstance(e, ast.Call) and isinstance(e.func, ast.Attribute) and \
                e.func.attr == 'get' and e.args and \
                isinstance(e.args[0], ast.Constant):
            k, base = e.args[0].value, e.func.value
        elif isinstance(e, ast.Subscript) and \
                isinstance(e.slice, ast.Constant):
            k, base = e.slice.value, e.value
        if k is None:
            return None
        if isinstance(base, ast.Name) and base.id in defs:
            base = defs[base.id]
        bt = unparse(base)
        if bt == "%s['description']" % tvar:
            return ('descr', k)
        if bt == tvar:
            return ('task', k)
        return None

    def classify(a):
        dk = descr_key(a)
        if dk == ('descr', 'raptor_id'):
            return ('R', True)
        if dk == ('task', 'raptor_seen'):
            return ('S', True)
        if isinstance(a, ast.Compare) and len(a.ops) == 1:
            l, r = a.left, a.comparators[0]
            for x, y in ((l, r), (r, l)):
                if descr_key(x) == ('descr', 'mode'):
                    v = prog.fold(f.module, y, f.cls)
                    if v is not UNK and v == worker:
                        eq = isinstance(a.ops[0], (ast.Eq, ast.Is))
                        ne = isinstance(a.ops[0], (ast.NotEq, ast.IsNot))
                        if eq or ne:
                            return ('W', eq)      # W: task is a worker
        return None

    def evalb(e, val, depth=0):
        """truth of a test over the three atoms; None = not decided.  Sees
        through `not`, and / or, bool(..) and locals bound once in the loop
        body to such an expression (`for_raptor = bool(rid) and mode != W`)"""
        c = classify(e)
        if c is not None:
            atom, pos = c
            return val[atom] == pos
        if isinstance(e, ast.UnaryOp) and isinstance(e.op, ast.Not):
            v = evalb(e.operand, val, depth)
            return None if v is None else not v
        if isinstance(e, ast.BoolOp):
            vs = [evalb(x, val, depth) for x in e.values]
            if isinstance(e.op, ast.And):
                if any(v is False for v in vs):
                    return False
                return True if all(v is True for v in vs) else None
            if any(v is True for v in vs):
                return True
            return False if all(v is False for v in vs) else None
        if isinstance(e, ast.Call) and call_name(e) == 'bool' and \
                len(e.args) == 1 and not e.keywords:
            return evalb(e.args[0], val, depth)
        if isinstance(e, ast.Name) and e.id in defs and depth < 3 and \
                n_defs.get(e.id) == 1:
            return evalb(defs[e.id], val, depth + 1)
        return None

    def transfer(node, edge, st):
        if edge.label == 'exc':
            return st
        R, Wk, S, eff = st
        a = node.ast
        if node.kind == 'test' and edge.label in ('T', 'F'):
            v = evalb(a, {'R': R, 'W': Wk, 'S': S})
            if v is None:
                return st
            return st if (edge.label == 'T') == v else None
        if node.kind == 'stmt' and a is not None:
            for c in calls_in(a):
                if isinstance(c.func, ast.Attribute) and \
                        c.func.attr == 'append' and c.args and \
                        unparse(c.args[0]) == tvar:
                    eff = eff + (root_name(c.func.value),)
                elif call_name(c) == 'self._fail_task' and c.args and \
                        unparse(c.args[0]) == tvar:
                    eff = eff + ('!fail',)
        return (R, Wk, S, eff)

    start, stop, stop_edge = loop_slice(g, loop)
    n_paths = 0
    for R in (True, False):
        for Wk in (True, False):
            for S in (True, False):
                ex = Exploration(g, start, (R, Wk, S, ()), transfer,
                                 stop=stop, stop_edge=stop_edge)
                n_paths += ex.states
                # an exception leaves the loop (queue.Empty handler): that is
                # not an outcome of the routing decision
                outs = {t.state[3] for t in ex.terminals if t.via != 'exc'}
                # a task rejected before the routing decision (invalid
                # description) has no route; fail + route is C04's finding
                outs = {tuple(x for x in o if x != '!fail') for o in outs
                        if o != ('!fail',)}
                fwd = R and not Wk and not S
                what = 'raptor_id %s, %s, raptor_seen %s' % (
                    'set' if R else 'unset', 'raptor worker' if Wk else
                    'not a worker', 'set' if S else 'unset')
                if fwd:
                    good = outs == {(rcont,)}
                else:
                    good = all(len(o) == 1 and o[0] != rcont for o in outs) \
                        and bool(outs)
                got = sorted('+'.join(o) or 'nothing' for o in outs)
                rep.check(good, rid, f, '[%s] -> %s' % (
                    what, 'forwarded to raptor' if fwd else
                    'scheduled by the agent'),
                    construct='sched R=%d W=%d S=%d' % (R, Wk, S),
                    message='%s: a task with [%s] is appended to %s; it must '
                    'be %s: %s' % (
                        f.qual, what, '/'.join(got),
                        'forwarded to its raptor master only' if fwd else
                        'scheduled by the agent scheduler only',
                        'an executable request sent back by the master is '
                        'forwarded to the master again and circulates'
                        if S and R and not Wk else
                        'the request is executed twice or by the wrong '
                        'component'), loc=f.loc(),
                    history='one task with [%s] arrives at the agent '
                    'scheduler' % what)
    rep.stat('paths_enumerated', n_paths)
    # backlog relayed once
    cb = prog.method(SCH[0], SCH[1], 'control_cb')
    rep.saw(cb)
    gc = cfg_of(cb)
    sc = I.stmt_node_map(gc)
    n = 0
    for c in calls_in(cb.node):
        if not (isinstance(c.func, ast.Attribute) and c.func.attr == 'put'
                and unparse(c.func.value).startswith('self._raptor_queues[')
                and c.args and isinstance(c.args[0], ast.Name)):
            continue
        pn = sc[id(c)]
        src = None
        popped = False
        for s in walk(cb.node):
            if isinstance(s, ast.Assign) and any(
                    isinstance(t, ast.Name) and t.id == c.args[0].id
                    for t in s.targets) and \
                    sc[id(s)].id in _anc(gc, pn.id):
                vt = unparse(s.value)
                if vt.startswith('self._raptor_tasks[') or \
                        vt.startswith('self._raptor_tasks.pop('):
                    if must_pass(gc, gc.entry.id, pn.id, [sc[id(s)].id]):
                        src = s
                        popped = vt.startswith('self._raptor_tasks.pop(')
        if src is None:
            continue
        n += 1
        cell = unparse(src.value)
        dels = [sc[id(s)].id for s in walk(cb.node)
                if isinstance(s, ast.Delete) and
                any(unparse(t) == cell for t in s.targets)]
        # pop() reads and removes in one step
        once = popped or bool(dels) and (
            must_pass(gc, sc[id(src)].id, pn.id, dels) or
            must_pass(gc, pn.id, gc.exit.id, dels))
        rep.check(once, rid, cb, 'backlog %s is removed when it is relayed'
                  % cell, construct=c,
                  message='%s relays the backlog %s to the raptor queue '
                  'without deleting it: the next registration relays the '
                  'same requests again' % (cb.qual, cell), loc=cb.loc(c),
                  history='two masters register one after the other: the '
                  'requests cached for "*" are executed by both')
    if n < 1:
        raise AnalysisError('R20.5: no backlog relay found in %s'
                            % cb.where)


def _anc(g, nid):
    seen, todo = set(), [nid]
    while todo:
        n = todo.pop()
        for e in g.pred[n]:
            if e.src not in seen:
                seen.add(e.src)
                todo.append(e.src)
    return seen


# ------------------------------------------------------------------------------
# R20.6
#
STDIO = ('sys.stdout', 'sys.stderr')
ENV = 'os.environ'


def _is_env_copy(v):
    return (isinstance(v, ast.Call) and (
        (call_name(v) == 'os.environ.copy' and not v.args) or
        (call_name(v) == 'dict' and len(v.args) == 1 and
         unparse(v.args[0]) == ENV)))


def _res_events(f, prog=None, cls=None, depth=2):
    """{resource: {'save': [(stmt, name)], 'restore': [(stmt, name)],
    'mutate': [stmt]}} from the statements of f"""
    ev = {r: {'save': [], 'restore': [], 'mutate': [], 'update': [],
              'clear': [], 'alias': []}
          for r in STDIO + (ENV,)}
    for s in walk(f.node):
        if isinstance(s, ast.For) and isinstance(s.iter, ast.Call) and \
                isinstance(s.iter.func, ast.Attribute) and \
                s.iter.func.attr in ('items', 'keys') and \
                isinstance(s.iter.func.value, ast.Name):
            # for k, v in <saved>.items(): os.environ[k] = v
            if any(isinstance(b, ast.Assign) and any(
                    isinstance(t, ast.Subscript) and unparse(t.value) == ENV
                    for t in b.targets) for b in s.body):
                ev[ENV]['restore'].append((s, s.iter.func.value.id))
                ev[ENV]['update'].append(s)
        if isinstance(s, ast.Assign):
            tg = [unparse(t) for t in s.targets]
            for r in STDIO + (ENV,):
                if r in tg:
                    if isinstance(s.value, ast.Name):
                        ev[r]['restore'].append((s, s.value.id))
                    else:
                        ev[r]['mutate'].append(s)
            names = [t.id for t in s.targets if isinstance(t, ast.Name)]
            for r in STDIO:
                if unparse(s.value) == r and names:
                    ev[r]['save'].append((s, names[0]))
            if _is_env_copy(s.value) and names:
                ev[ENV]['save'].append((s, names[0]))
            if unparse(s.value) == ENV and names:
                ev[ENV]['alias'].append((s, names[0]))
            for t in s.targets:
                if isinstance(t, ast.Subscript) and unparse(t.value) == ENV:
                    ev[ENV]['mutate'].append(s)
        elif isinstance(s, (ast.AugAssign, ast.Delete)):
            tg = [s.target] if isinstance(s, ast.AugAssign) else s.targets
            for t in tg:
                if isinstance(t, ast.Subscript) and unparse(t.value) == ENV:
                    ev[ENV]['mutate'].append(s)
        elif isinstance(s, ast.Expr) and isinstance(s.value, ast.Call):
            c = s.value
            if isinstance(c.func, ast.Attribute) and \
                    unparse(c.func.value) == ENV and \
                    c.func.attr in I.MUTATING:
                if c.func.attr == 'update' and len(c.args) == 1 and \
                        isinstance(c.args[0], ast.Name):
                    ev[ENV]['restore'].append((s, c.args[0].id))
                    ev[ENV]['update'].append(s)
                elif c.func.attr == 'clear':
                    ev[ENV]['clear'].append(s)
                else:
                    ev[ENV]['mutate'].append(s)
    if prog is not None and depth > 0:
        _helper_events(prog, f, cls, depth, ev)
    return ev


def _helper_events(prog, f, cls, depth, ev):
    """save / restore / change events that happen inside helpers called by f
    (extract-method refactorings), attributed to the calling statement with
    the helper's parameters replaced by the argument names"""
    for s in walk(f.node):
        if not isinstance(s, (ast.Assign, ast.Expr)):
            continue
        for c in calls_in(s):
            if not (isinstance(c.func, ast.Attribute) and
                    isinstance(c.func.value, ast.Name) and
                    c.func.value.id == 'self'):
                continue
            g = prog.resolve_call(f, c, cls)
            if g is None or g.node is f.node or g.cls is None:
                continue
            he = _res_events(g, prog, cls, depth - 1)
            if not any(he[r][k] for r in he for k in he[r]):
                continue
            gp = [p for p in g.params if p != 'self']
            pmap = {}
            for i, a in enumerate(c.args):
                if i < len(gp) and isinstance(a, ast.Name):
                    pmap[gp[i]] = a.id
            for kw in c.keywords:
                if kw.arg in gp and isinstance(kw.value, ast.Name):
                    pmap[kw.arg] = kw.value.id
            rets = {unparse(n.value) for n in walk(g.node)
                    if isinstance(n, ast.Return) and n.value is not None}
            ret = list(rets)[0] if len(rets) == 1 else None
            tgt = None
            if isinstance(s, ast.Assign) and s.value is c and \
                    len(s.targets) == 1 and \
                    isinstance(s.targets[0], ast.Name):
                tgt = s.targets[0].id
            gg = cfg_of(g)
            gm = I.stmt_node_map(gg)
            for r in he:
                h = he[r]
                for hs, hn in h['save']:
                    if hn == ret and tgt:
                        # the copy must be taken before the helper changes
                        # the resource itself
                        first = all(must_pass(gg, gg.entry.id, gm[id(m)].id,
                                              [gm[id(hs)].id])
                                    for m in h['mutate']
                                    if id(m) in gm and id(hs) in gm)
                        (ev[r]['save'] if first else
                         ev[r]['alias']).append((s, tgt))
                for hs, hn in h['alias']:
                    if hn == ret and tgt:
                        ev[r]['alias'].append((s, tgt))
                for hs, hn in h['restore']:
                    if hn in pmap:
                        ev[r]['restore'].append((s, pmap[hn]))
                        if any(hs is u for u in h['update']):
                            ev[r]['update'].append(s)
                            if any(getattr(cl, 'lineno', 0) <
                                   getattr(hs, 'lineno', 0)
                                   for cl in h['clear']):
                                ev[r]['clear'].append(s)
                if h['mutate']:
                    ev[r]['mutate'].append(s)


def _in_final(try_ast, stmt):
    return any(n is stmt for x in try_ast.finalbody for n in walk(x))


def r20_6(prog, rep, rid='R20.6'):
    rep.rule(rid, '_dispatch_func/_eval/_exec save stdout, stderr and the '
             'environment before the try, restore each from its own save in '
             'the finally; all five dispatchers return code 0 and no '
             'exception exactly on the path where the call completed',
             minimum=38)
    W = prog.cls(*WK)
    for mname in ('_dispatch_func', '_dispatch_eval', '_dispatch_exec'):
        f = prog.method(WK[0], WK[1], mname)
        rep.saw(f)
        g = cfg_of(f)
        smap = I.stmt_node_map(g)
        T = _toplevel_try(f)
        first = None
        for n in g.nodes:
            if n.ast is not None and T in n.tries and (
                    first is None or n.id < first.id):
                first = n
        ev = _res_events(f, prog, W)
        for r in STDIO + (ENV,):
            e = ev[r]
            what = 'the environment' if r == ENV else r
            hist = ('a request whose code sets os.environ["X"]: the next '
                    'request of this worker sees X') if r == ENV else \
                   ('a request that raises while %s is redirected: the '
                    'output of every later request (and the worker log) '
                    'goes into the dead buffer' % r)
            saves = {n: s for s, n in e['save']}
            good_restore = [(s, n) for s, n in e['restore']
                            if _in_final(T, s) and n in saves]
            wrong_src = [(s, n) for s, n in e['restore'] if n not in saves]
            outside = [(s, n) for s, n in e['restore']
                       if not _in_final(T, s) and n in saves]
            msg = None
            if not e['restore']:
                msg = 'is never restored'
            elif not good_restore and outside:
                msg = 'is restored outside the `finally` of the dispatch ' \
                      'try: an exception in the handler (or a ' \
                      'BaseException) leaves it changed'
            elif wrong_src:
                alias = {n for _, n in e['alias']}
                msg = 'is restored from `%s`, which is %s' % (
                    wrong_src[0][1], 'an alias of os.environ itself, not a '
                    'copy: everything the request changed is still there'
                    if wrong_src[0][1] in alias else
                    'not a saved copy of it')
            elif r == ENV:
                # the restore must re-establish the saved mapping exactly
                for st, nm in good_restore:
                    if not any(st is u for u in e['update']):
                        continue                      # os.environ = saved
                    clears = [n.id for c in e['clear'] if _in_final(T, c)
                              for n in g.nodes_of(c)]
                    unodes = g.nodes_of(st) if not isinstance(st, ast.For) \
                        else [n for n in g.nodes if n.ast is st]
                    if not unodes or not clears or not all(
                            must_pass(g, g.entry.id, u.id, clears)
                            for u in unodes):
                        msg = 'is restored by writing the saved keys back ' \
                              '(`%s`) without an os.environ.clear() before ' \
                              'it on every path of the finally: keys ' \
                              'added by the request are not removed' \
                              % short(st, 40)
            if msg is None and good_restore:
                # ... and on every way through the finally (block membership
                # by must-pass, not by indentation)
                rnodes = []
                for st, nm in good_restore:
                    rnodes += g.nodes_of(st) if not isinstance(st, ast.For) \
                        else [n for n in g.nodes if n.ast is st]
                rids = [n.id for n in rnodes]
                if not rids or not all(
                        must_pass(g, first.id, end, rids)
                        for end in (g.exit.id, g.raise_.id)):
                    from ..flow import guard_atoms
                    conds = []
                    for n in rnodes:
                        for a, pol in guard_atoms(g, n.id, start=first.id):
                            t = ('`%s`' if pol else 'not `%s`') % short(a, 30)
                            if t not in conds:
                                conds.append(t)
                    msg = 'is restored (`%s`) only on some of the ways ' \
                          'through the `finally`%s: on the others the ' \
                          'dispatcher returns with what the request changed ' \
                          'still in place' % (
                              short(good_restore[0][0], 40),
                              ' (only when %s)' % ' and '.join(conds)
                              if conds else '')
                    if conds:
                        hist = 'a request for which %s does not hold: %s' % (
                            ' and '.join(conds), hist)
            rep.check(msg is None, rid, f, '%s is restored in the finally '
                      'from its own save' % what, construct='restore:%s' % r,
                      message='%s: %s %s' % (f.qual, what, msg),
                      loc=f.loc((e['restore'] or [(T, 0)])[0][0]),
                      history=hist)
            sname = good_restore[0][1] if good_restore else (
                sorted(saves)[0] if saves else None)
            if sname is None:
                rep.bad(rid, f, 'save:%s' % r, '%s: %s is never saved before '
                        'the request runs' % (f.qual, what), f.loc(),
                        history=hist)
                continue
            sstmt = saves[sname]
            sn = smap[id(sstmt)]
            rebinds = [x for x in walk(f.node) if isinstance(x, ast.Name) and
                       x.id == sname and isinstance(x.ctx, ast.Store)]
            before = T not in sn.tries and not sn.loops and \
                must_pass(g, g.entry.id, first.id, [sn.id]) and \
                len(rebinds) == 1
            muts_ok = all(must_pass(g, g.entry.id, smap[id(m)].id, [sn.id])
                          for m in e['mutate'] if id(m) in smap)
            rep.check(before and muts_ok, rid, f, '%s is saved once, before '
                      'the try and before it is changed' % what,
                      construct='save:%s' % r,
                      message='%s: the copy `%s` of %s restored in the '
                      'finally is %s: what is restored is not the state the '
                      'request found'
                      % (f.qual, sname, what, 'taken after %s was already '
                         'changed' % what if before else 'not taken exactly '
                         'once before the try statement'),
                      loc=f.loc(sstmt), history=hist)
    for mname in ('_dispatch_func', '_dispatch_eval', '_dispatch_exec',
                  '_dispatch_proc', '_dispatch_shell'):
        f = prog.method(WK[0], WK[1], mname)
        rep.saw(f)
        T = _toplevel_try(f)
        hl = {h.lineno for h in T.handlers}
        seen = {}

        def observe(fn, node, env, seen=seen, f=f, T=T, hl=hl):
            if fn is not f or node.kind != 'stmt' or \
                    not isinstance(node.ast, ast.Return):
                return
            v = node.ast.value
            if not isinstance(v, ast.Tuple) or len(v.elts) != 5:
                raise AnalysisError('UNRECOGNISED-IDIOM %s: return value is '
                                    'not (out, err, ret, val, exc)' % f.where)
            ret = ip.ev(fn, v.elts[2], env)
            exc = ip.ev(fn, v.elts[4], env)
            if set(env.get('@h', ())) & hl:
                cls = 'failure'
            elif node.ast.lineno < T.lineno:
                cls = 'early'
            else:
                cls = 'success'
            seen.setdefault(cls, []).append((node.ast, ret, exc))

        ip = Interp(prog, W, observe=observe)
        ip.run(f, {})
        rep.stat('interp_states', ip.states)
        if 'success' not in seen or 'failure' not in seen:
            raise AnalysisError('UNRECOGNISED-IDIOM %s: success and failure '
                                'returns not both found' % f.where)
        for cls in sorted(seen):
            rets = [r for _, r, _ in seen[cls]]
            excs = [_exc_status(x) for _, _, x in seen[cls]]
            known = [r for r in rets if r is not UNK and
                     isinstance(r, (int, float))]
            if cls == 'success':
                bad_ret = [r for r in known if r != 0]
                bad_exc = 'set' in excs
                want = 'exit code 0 and no exception'
                hist = 'a request whose call returns normally is reported ' \
                       'FAILED'
            else:
                bad_ret = [r for r in known if r == 0]
                bad_exc = 'none' in excs
                want = 'a non-zero exit code and the exception'
                hist = 'a request whose call raises is reported with exit ' \
                       'code 0 / without exception and ends DONE'
            if known or cls != 'success':
                if not known and UNK in rets:
                    raise AnalysisError('UNRECOGNISED-IDIOM %s: exit code on '
                                        'the %s path cannot be evaluated'
                                        % (f.where, cls))
                rep.check(not bad_ret, rid, f, '%s path returns %s (code)'
                          % (cls, want), construct='ret:%s' % cls,
                          message='%s returns exit code %s on the %s path; '
                          'expected %s' % (f.qual, bad_ret, cls, want),
                          loc=f.loc(seen[cls][0][0]), history=hist)
            if 'unknown' in excs and not bad_exc:
                raise AnalysisError('UNRECOGNISED-IDIOM %s: exception tuple '
                                    'on the %s path cannot be evaluated'
                                    % (f.where, cls))
            rep.check(not bad_exc, rid, f, '%s path returns %s (exception)'
                      % (cls, want), construct='exc:%s' % cls,
                      message='%s returns %s on the %s path; expected %s'
                      % (f.qual, 'an exception' if cls == 'success' else
                         '(None, None) as exception', cls, want),
                      loc=f.loc(seen[cls][0][0]), history=hist)


# ------------------------------------------------------------------------------
# R20.15  the worker-wide task environment (an attribute built from os.environ
#         when the worker is constructed) is owned by the worker: what a
#         request writes goes into a fresh copy, never through an alias
#
_ENV_WRITES = ('update', 'setdefault', 'pop', 'popitem', 'clear',
               '__setitem__', '__delitem__')


def _mentions(e, names):
    return any(isinstance(x, ast.Attribute) and unparse(x) in names
               for x in ast.walk(e))


def _env_attrs(classes):
    """`self.X` built from os.environ in a method of the worker classes, and
    the methods that build them"""
    attrs, builders = set(), set()
    for C in classes:
        for m in C.methods.values():
            for s in ast.walk(m.node):
                if isinstance(s, ast.Assign):
                    for t in s.targets:
                        if isinstance(t, ast.Attribute) and \
                                unparse(t.value) == 'self' and \
                                (_is_env_copy(s.value) or (
                                    isinstance(s.value, ast.DictComp) and any(
                                        unparse(x) == ENV
                                        for c in s.value.generators
                                        for x in ast.walk(c.iter))) or (
                                    isinstance(s.value, ast.Dict) and any(
                                        k is None and unparse(v) == ENV
                                        for k, v in zip(s.value.keys,
                                                        s.value.values)))):
                            attrs.add(unparse(t))
                elif isinstance(s, ast.For) and any(
                        unparse(x) == ENV for x in ast.walk(s.iter)):
                    for b in ast.walk(s):
                        if not isinstance(b, ast.Assign):
                            continue
                        for t in b.targets:
                            if isinstance(t, ast.Subscript) and \
                                    isinstance(t.value, ast.Attribute) and \
                                    unparse(t.value.value) == 'self':
                                attrs.add(unparse(t.value))
    for C in classes:
        for m in C.methods.values():
            for s in ast.walk(m.node):
                if isinstance(s, ast.Assign) and any(
                        unparse(t) in attrs for t in s.targets):
                    builders.add(id(m.node))
    return attrs, builders


def _alias_defs(g, v, nid, attrs, depth=0):
    """(is an alias of one of attrs, derived from one of attrs) for the value
    expression v evaluated at cfg node nid"""
    if v is None or depth > 4:
        return False, False
    if isinstance(v, ast.Attribute) and unparse(v) in attrs:
        return True, True
    if isinstance(v, ast.IfExp):
        parts = [v.body, v.orelse]
    elif isinstance(v, ast.BoolOp):
        parts = v.values
    elif isinstance(v, ast.Name):
        al = dv = False
        for dn, dvv in reaching_defs(g, v.id, nid):
            a, d = _alias_defs(g, dvv, dn.id, attrs, depth + 1)
            al, dv = al or a, dv or d
        return al, dv
    else:
        return False, _mentions(v, attrs)
    al = dv = False
    for x in parts:
        a, d = _alias_defs(g, x, nid, attrs, depth + 1)
        al, dv = al or a, dv or d
    return al, dv


def _env_writes(f):
    """[(ast node to locate, base expr, kind, key expr or None)]"""
    out = []
    for s in ast.walk(f.node):
        if isinstance(s, (ast.Assign, ast.AugAssign, ast.Delete)):
            tg = s.targets if not isinstance(s, ast.AugAssign) \
                else [s.target]
            kind = 'store' if isinstance(s, ast.Assign) else \
                'del' if isinstance(s, ast.Delete) else 'aug'
            for t in tg:
                if isinstance(t, ast.Subscript):
                    out.append((s, t.value, kind, t.slice))
        elif isinstance(s, ast.Call) and isinstance(s.func, ast.Attribute) \
                and s.func.attr in _ENV_WRITES:
            out.append((s, s.func.value, s.func.attr, None))
    return out


def r20_15(prog, rep, rid='R20.15'):
    rep.rule(rid, 'a mapping a request handler writes request data into is a '
             'fresh copy of the worker-wide task environment (the attribute '
             'built from os.environ at construction), not the attribute '
             'itself or an alias of it (a constant key every request '
             'overwrites excepted)', minimum=2)
    classes = [prog.cls(*WK), prog.cls(*WD)]
    attrs, builders = _env_attrs(classes)
    if not attrs:
        return
    hist = ('a request with environment {"X": "1"} followed by a request '
            'without X on the same worker: the second request runs with X=1')
    for C in classes:
        for mname, f in sorted(C.methods.items()):
            if id(f.node) in builders:
                continue
            ws = _env_writes(f)
            if not ws:
                continue
            g = cfg_of(f)
            smap = I.stmt_node_map(g)
            for s, base, kind, key in ws:
                n = smap.get(id(s))
                if n is None:
                    continue
                if isinstance(base, ast.Name):
                    alias, derived = _alias_defs(g, base, n.id, attrs)
                elif isinstance(base, ast.Attribute) and \
                        unparse(base) in attrs:
                    alias = derived = True
                else:
                    continue
                if not derived:
                    continue
                rep.saw(f)
                ok = not alias
                if alias and kind == 'store' and \
                        isinstance(key, ast.Constant):
                    # the same key is written by every request that gets
                    # here: the next one replaces it before it runs
                    if not isinstance(base, ast.Name):
                        ok = True
                    else:
                        ok = all(must_pass(g, dn.id, g.exit.id, [n.id],
                                           skip_exc=True)
                                 for dn, _ in reaching_defs(g, base.id, n.id)
                                 ) or not guards(g, n.id)
                rep.check(ok, rid, f, 'request data is written into a fresh '
                          'copy of the task environment',
                          construct='envwrite:%s' % kind,
                          message='%s: `%s` writes into `%s`, which is %s the '
                          'worker-wide task environment %s, not a copy of it: '
                          'what this request sets stays there for every '
                          'later request of the worker'
                          % (f.qual, short(s, 50), unparse(base),
                             'an alias of' if isinstance(base, ast.Name)
                             else 'itself', '/'.join(sorted(attrs))),
                          loc=f.loc(s), history=hist)


# ------------------------------------------------------------------------------
# R20.11  the exit code of a child process is read after the process was
#         waited for (fresh value)
#
WAITS = ('communicate', 'wait')


def _popen_defs(f, g):
    """{name: [cfg node]}: locals bound to a subprocess.Popen(...) object"""
    out = {}
    for n in g.nodes:
        if n.ast is None:
            continue
        pairs = []
        if n.kind == 'stmt' and isinstance(n.ast, ast.Assign) and \
                len(n.ast.targets) == 1 and \
                isinstance(n.ast.targets[0], ast.Name):
            pairs.append((n.ast.targets[0].id, n.ast.value))
        elif n.kind == 'with':
            for it in n.ast.items:
                if isinstance(it.optional_vars, ast.Name):
                    pairs.append((it.optional_vars.id, it.context_expr))
        for nm, v in pairs:
            if isinstance(v, ast.Call) and \
                    (call_name(v) or '').split('.')[-1] == 'Popen':
                out.setdefault(nm, []).append(n)
    return out


def _node_exprs(n):
    if n.kind == 'for':
        return [n.ast.iter]
    if n.kind == 'with':
        return [i.context_expr for i in n.ast.items]
    if n.kind in ('while', 'dispatch', 'handler'):
        return []
    return [n.ast]


def r20_11(prog, rep, rid='R20.11', tier='quick'):
    rep.rule(rid, 'the exit code a process dispatcher reports is read from '
             'the child process object after the process was waited for '
             '(communicate / wait) on every path', minimum=2)
    W = prog.cls(*WK)
    names = ['_dispatch_proc', '_dispatch_shell']
    if tier == 'thorough':
        names = sorted(W.methods)
    for mname in names:
        f = prog.method(WK[0], WK[1], mname)
        rep.saw(f)
        found = 0
        funcs = all_funcs(f)
        for c in calls_in(f.node):
            # helpers of the class / module the dispatcher hands the work to
            h = prog.resolve_call(f, c, W)
            if h is not None and h.module is f.module and \
                    not h.name.startswith('_dispatch') and \
                    all(h.node is not k.node for k in funcs):
                funcs += all_funcs(h)
        for fn in funcs:
            g = cfg_of(fn)
            defs = _popen_defs(fn, g)
            if not defs:
                continue
            for n in g.nodes:
                if n.ast is None:
                    continue
                for root in _node_exprs(n):
                    for x in walk(root):
                        if not (isinstance(x, ast.Attribute) and
                                x.attr == 'returncode' and
                                isinstance(x.ctx, ast.Load) and
                                isinstance(x.value, ast.Name) and
                                x.value.id in defs):
                            continue
                        nm = x.value.id
                        found += 1
                        waits = []
                        for m in g.nodes:
                            if m.ast is None:
                                continue
                            if any(isinstance(c, ast.Call) and
                                   isinstance(c.func, ast.Attribute) and
                                   c.func.attr in WAITS and
                                   isinstance(c.func.value, ast.Name) and
                                   c.func.value.id == nm
                                   for r in _node_exprs(m) for c in walk(r)):
                                waits.append(m.id)
                        # a wait which raises (timeout) has not completed: its
                        # exception edge does not count as having waited
                        skip = [(w, lab) for w in waits for lab in NONEXC]
                        stale = n.id not in waits and any(
                            n.id in g.reachable(d.id, skip_edges=skip)
                            for d in defs[nm] if d.id != n.id)
                        rep.check(not stale, rid, fn,
                                  '`%s` is read after %s.communicate() / '
                                  '.wait()' % (short(x, 30), nm),
                                  construct='stale %s.returncode' % nm,
                                  message='%s reads `%s` on a path on which '
                                  'the process started by `%s = ...Popen(..)` '
                                  'was not waited for yet (%s): '
                                  'Popen.returncode is None until the process '
                                  'was waited for, so the value taken here is '
                                  'the stale None, not the exit code of the '
                                  'command' % (
                                      fn.qual, short(x, 30), nm,
                                      'no %s.communicate() / %s.wait() in '
                                      'this function' % (nm, nm) if not waits
                                      else 'the %s.%s() call comes later' % (
                                          nm, '/'.join(WAITS))),
                                  loc=fn.loc(x),
                                  history="a task.proc request `/bin/sh -c "
                                  "'exit 0'`: the worker reports exit code "
                                  "None, Master._result_cb maps it to -1 and "
                                  "the request which succeeded ends FAILED "
                                  "(one which failed reports None instead of "
                                  "its non-zero code)")
        if not found and mname in ('_dispatch_proc', '_dispatch_shell'):
            rep.ok(rid, f, '%s: no Popen object, the exit code is the result '
                   'of a synchronous call' % mname, f.loc())


# ------------------------------------------------------------------------------
# R20.12  whoever waits for a request in a table is woken for EVERY answer
#         that is in the table (wake-up depends on the table only)
#
def _waiter_tables(C):
    """[(method, table attr, event name)]: `self.<T>[k] = [.., event, ..]`
    (or `= event`) followed by `event.wait()` in a method of C"""
    out = []
    for mname, m in sorted(C.methods.items()):
        waits = {c.func.value.id for c in calls_in(m.node)
                 if isinstance(c.func, ast.Attribute) and
                 c.func.attr == 'wait' and isinstance(c.func.value, ast.Name)}
        if not waits:
            continue
        for n in walk(m.node):
            if not isinstance(n, ast.Assign):
                continue
            for t in n.targets:
                if not (isinstance(t, ast.Subscript) and
                        (dotted(t.value) or '').startswith('self.') and
                        dotted(t.value).count('.') == 1):
                    continue
                srcs = [n.value]
                if isinstance(n.value, ast.Name):
                    # entry = [event, task]; self.<T>[k] = entry
                    srcs += [a.value for a in walk(m.node)
                             if isinstance(a, ast.Assign) and any(
                                 isinstance(x, ast.Name) and
                                 x.id == n.value.id for x in a.targets)]
                vals = []
                for sv in srcs:
                    vals += sv.elts if isinstance(
                        sv, (ast.List, ast.Tuple)) else [sv]
                for v in vals:
                    if isinstance(v, ast.Name) and v.id in waits:
                        out.append((m, dotted(t.value)[5:], v.id))
    return out


class _TableReads:
    """does an expression of f read self.<T> - directly or through locals
    whose definitions do (flow insensitive)"""

    def __init__(self, f, table):
        self.path = 'self.' + table
        self.defs = {}
        for n in walk(f.node):
            if isinstance(n, ast.Assign):
                for t in n.targets:
                    for nm in stores_in_target(t):
                        self.defs.setdefault(nm, []).append(n.value)
            elif isinstance(n, ast.NamedExpr) and \
                    isinstance(n.target, ast.Name):
                self.defs.setdefault(n.target.id, []).append(n.value)

    def reads(self, e, _seen=None):
        seen = set() if _seen is None else _seen
        for n in walk(e):
            if isinstance(n, ast.Attribute) and dotted(n) == self.path:
                return True
            if isinstance(n, ast.Name) and isinstance(n.ctx, ast.Load) and \
                    n.id not in seen:
                seen.add(n.id)
                if any(self.reads(v, seen) for v in self.defs.get(n.id, [])):
                    return True
        return False


def r20_12(prog, rep, rid='R20.12'):
    rep.rule(rid, 'a method which parks a thread on an event it entered into '
             'a table self.<T> is paired with a callback that sets the event '
             '(and stores the answer) for every answer found in the table: '
             'inside the callback, whether the wake-up runs depends on tests '
             'of the table only', minimum=3)
    M = prog.cls(*MA)
    tables = _waiter_tables(M)
    if not tables:
        raise AnalysisError('UNRECOGNISED-IDIOM %s: no method waits on an '
                            'event it registered in a table' % M.where)
    for reg, T, evname in tables:
        rep.saw(reg)
        wakers = 0
        for mname, f in sorted(M.methods.items()):
            if f is reg:
                continue
            tr = _TableReads(f, T)
            g = cfg_of(f)
            smap = I.stmt_node_map(g)
            acts = []                  # (cfg node, stmt, 'wake' | 'answer')
            for n in walk(f.node):
                if isinstance(n, ast.Expr) and isinstance(n.value, ast.Call) \
                        and isinstance(n.value.func, ast.Attribute):
                    c = n.value
                    if not tr.reads(c.func.value):
                        continue
                    if c.func.attr == 'set' and not c.args:
                        acts.append((smap.get(id(n)), n, 'wake'))
                    elif c.func.attr in ('append', 'extend', 'insert',
                                         'update'):
                        acts.append((smap.get(id(n)), n, 'answer'))
                elif isinstance(n, (ast.Assign, ast.AugAssign)):
                    tg = n.targets if isinstance(n, ast.Assign) else [n.target]
                    if any(isinstance(t, ast.Subscript) and tr.reads(t.value)
                           for t in tg):
                        acts.append((smap.get(id(n)), n, 'answer'))
            if not any(k == 'wake' for _, _, k in acts):
                continue
            wakers += 1
            rep.saw(f)
            for node, stmt, kind in acts:
                if node is None:
                    continue
                head = node.loops[-1] if node.loops else None
                inside = g.loop_body[head] if head is not None else None
                foreign = []
                for t in g.nodes:
                    if t.kind != 'test' or \
                            (inside is not None and t.id not in inside):
                        continue
                    skip = {t.id} | ({head} if head is not None else set())
                    reach = [node.id in g.reachable(e.dst, skip_nodes=skip)
                             or e.dst == node.id
                             for e in g.succ[t.id] if e.label in ('T', 'F')]
                    if any(reach) and not all(reach) and not tr.reads(t.ast):
                        foreign.append(t)
                what = 'the waiting thread is woken' if kind == 'wake' else \
                    'the answer is stored for the waiting thread'
                rep.check(not foreign, rid, f,
                          '%s: `%s` depends on self.%s only' % (
                              f.qual, short(stmt, 40), T),
                          construct='%s:%s' % (kind, T),
                          message='%s: whether `%s` runs for a received '
                          'request (%s) depends on `%s`, which is not a test '
                          'of self.%s: a request which %s entered into '
                          'self.%s and for which that test goes the other '
                          'way is never %s, its `%s.wait()` never returns'
                          % (f.qual, short(stmt, 40), what,
                             short(foreign[0].ast, 40) if foreign else '',
                             T, reg.qual, T,
                             'signalled' if kind == 'wake' else 'answered',
                             evname),
                          loc=f.loc(foreign[0].ast if foreign else stmt),
                          history='a worker calls master.run_task() for an '
                          'executable request: the agent executes it and it '
                          'comes back through raptor_state_update with its '
                          'target state already set; %s skips the wake-up, '
                          'the %s thread (and the worker behind it) blocks '
                          'for ever and the entry stays in self.%s'
                          % (f.qual, reg.qual, T))
        rep.check(wakers > 0, rid, reg, 'self.%s: a callback sets the event '
                  'the registering thread waits for' % T,
                  construct='waker:%s' % T,
                  message='%s waits on the event it stored in self.%s, but no '
                  'other method of %s sets an event of that table: the call '
                  'never returns' % (reg.qual, T, M.name), loc=reg.loc(),
                  history='any master.run_task() call blocks for ever')


# ------------------------------------------------------------------------------
# R20.7  routing table over the finite domain of request modes
#
# The route of a request is a function of its mode alone: TASK_EXECUTABLE goes
# to the agent's executor path, every mode the workers have a dispatcher for
# goes to the workers.  A routing test may read other attributes of the
# description, but then the table must still be exact for every description
# `TaskDescription._verify` admits for that mode.  Decided by three-valued
# evaluation: the description handed to the value interpreter carries the
# mode, a set value for every attribute _verify requires for the mode, no
# value for the ones it forbids and UNKNOWN for every other attribute of the
# schema; a test that reads an unknown attribute forks.  Only a concrete
# admissible description on which *every* path misroutes is reported.
#
TD = ('task_description.py', 'TaskDescription')
ROUTES = {'self._submit_executable_tasks': 'the agent executor path',
          'self._submit_raptor_tasks': 'the workers'}
R_EXE, R_WRK = 'self._submit_executable_tasks', 'self._submit_raptor_tasks'
SET = 'x'                      # some set (truthy) attribute value
TUID = 'task.0000'


def _schema_keys(prog):
    """{attribute name of a task description: some set (truthy) value of its
    schema type}"""
    C = prog.cls(*TD)
    e = C.consts.get('_schema')
    if not isinstance(e, ast.Dict):
        raise AnalysisError('UNRECOGNISED-IDIOM %s: _schema is not a dict '
                            'display' % C.where)
    out = {}
    for k, v in zip(e.keys, e.values):
        kk = prog.fold(C.module, k) if k is not None else UNK
        if not isinstance(kk, str):
            continue
        t = v.id if isinstance(v, ast.Name) else None
        out[kk] = {'int': 2, 'float': 2.0, 'bool': True}.get(t, SET)
        if isinstance(v, ast.List):
            out[kk] = [SET]
        elif isinstance(v, ast.Dict):
            out[kk] = {SET: SET}
    if 'mode' not in out or len(out) < 10:
        raise AnalysisError('UNRECOGNISED-IDIOM %s: the keys of _schema do '
                            'not fold' % C.where)
    return out


class _Ref:
    """value of a local name bound to a list / dict that lives inside another
    container variable (`bucket = routes[key]`): reads and mutations go to
    that element"""
    __slots__ = ('root', 'path')

    def __init__(self, root, path):
        self.root, self.path = root, tuple(path)

    def __eq__(self, other):
        return isinstance(other, _Ref) and \
            (other.root, other.path) == (self.root, self.path)

    def __hash__(self):
        return hash(('_Ref', self.root, self.path))

    def __repr__(self):
        return '&%s%s' % (self.root, ''.join('[%r]' % (k,) for k in self.path))


def _get_path(v, path):
    for k in path:
        try:
            v = v[k]
        except Exception:                                   # noqa
            return UNK
    return v


def _set_path(v, path, new):
    """copy of container v with the element at path replaced"""
    if not path:
        return new
    k = path[0]
    try:
        if isinstance(v, dict):
            c = dict(v)
            c[k] = _set_path(v.get(k, UNK), path[1:], new)
            return c
        if isinstance(v, list) and isinstance(k, int):
            c = list(v)
            c[k] = _set_path(v[k], path[1:], new)
            return c
    except Exception:                                       # noqa
        pass
    return UNK


def _resolve_shared(v, env, depth=0):
    """v with every element held by reference (Alias) read out"""
    if isinstance(v, Alias):
        k = deref(env, v.key)
        w = env.get(k, UNK)
        if isinstance(w, Alias) or depth > 4:
            return UNK
        return _resolve_shared(w, env, depth + 1)
    if depth > 4:
        return v
    if isinstance(v, list):
        return [_resolve_shared(x, env, depth + 1) for x in v]
    if isinstance(v, tuple):
        return tuple(_resolve_shared(x, env, depth + 1) for x in v)
    if isinstance(v, dict):
        return {k: _resolve_shared(x, env, depth + 1) for k, x in v.items()}
    return v


def _recv_roots(e, depth=0):
    """names of the variables whose container (or an element of it) the
    receiver expression e may denote: the roots of its access chain - not the
    names that only occur in an index or an argument"""
    while isinstance(e, (ast.Subscript, ast.Attribute, ast.Starred)):
        e = e.value
    if isinstance(e, ast.Name):
        return {e.id}
    if depth > 4:
        return set(_names(e))
    out = set()
    if isinstance(e, ast.IfExp):
        out = _recv_roots(e.body, depth + 1) | _recv_roots(e.orelse, depth + 1)
    elif isinstance(e, ast.BoolOp):
        for x in e.values:
            out |= _recv_roots(x, depth + 1)
    elif isinstance(e, (ast.List, ast.Tuple)):
        for x in e.elts:
            out |= _recv_roots(x, depth + 1)
    elif isinstance(e, ast.Dict):
        for x in e.values:
            out |= _recv_roots(x, depth + 1)
    elif isinstance(e, ast.Call):
        args = list(e.args)
        if isinstance(e.func, ast.Attribute):
            out = _recv_roots(e.func.value, depth + 1)
            if e.func.attr in ('get', 'setdefault', 'pop'):
                # d.get(k, dflt): an element of d, or dflt - never the key
                args = args[1:]
        for x in args + [k.value for k in e.keywords]:
            out |= _recv_roots(x, depth + 1)
    elif isinstance(e, ast.NamedExpr):
        out = _recv_roots(e.value, depth + 1) | {e.target.id}
    return out


def _shared_targets(v, env, depth=0):
    """variables whose containers v holds by reference"""
    out = set()
    if isinstance(v, Alias):
        k = deref(env, v.key)
        out.add(k)
        if depth < 4:
            out |= _shared_targets(env.get(k), env, depth + 1)
    elif isinstance(v, (list, tuple)) and depth < 4:
        for x in v:
            out |= _shared_targets(x, env, depth + 1)
    elif isinstance(v, dict) and depth < 4:
        for x in v.values():
            out |= _shared_targets(x, env, depth + 1)
    return out


class _DInterp(Interp):
    """value interpreter that also reads a description held as a dict through
    attribute access (`td.mode`, TypedDict style), evaluates str.startswith /
    endswith on known strings, and follows mutations of a list that is
    reached through an expression - an element of a table chosen by a
    computed key (`routes[mode == X].append(t)`), a conditional expression
    between two lists, a local bound to such an element"""

    schema = ()
    _shared = False        # some table holds containers of other variables

    def ev(self, f, e, env):
        if isinstance(e, ast.Attribute) and e.attr in self.schema:
            k = _key_of(e)
            if k is None or (k not in env and k not in self.inputs):
                base = self.ev(f, e.value, env)
                if isinstance(base, dict) and 'mode' in base:
                    return base.get(e.attr)
        v = Interp.ev(self, f, e, env)
        if isinstance(v, _Ref):
            v = _get_path(env.get(v.root, UNK), v.path)
        if self._shared and isinstance(v, (Alias, list, dict, tuple)):
            return _resolve_shared(v, env)
        return v

    def _cpath(self, f, e, env):
        """(variable, path below it) of the container object e denotes by
        reference; path None: some element that cannot be told; None: e is
        not such an expression"""
        if isinstance(e, ast.Name):
            v = env.get(e.id)
            if isinstance(v, _Ref):
                return v.root, v.path
            k = deref(env, e.id)
            if isinstance(env.get(k), tuple) and \
                    _shared_targets(env[k], env):
                return k, ()             # a tuple of other variables' lists
            return (k, ()) if isinstance(env.get(k), (list, dict)) else None
        if isinstance(e, ast.Subscript) and \
                not isinstance(e.slice, ast.Slice):
            if isinstance(e.value, (ast.Dict, ast.List, ast.Tuple)):
                # a table written in place: `{True: a, False: b}[test]`
                kv = self.ev(f, e.slice, env)
                if kv is UNK or not isinstance(kv, (str, int, bool,
                                                    type(None))):
                    return None
                if isinstance(e.value, ast.Dict):
                    hit = None
                    for k, x in zip(e.value.keys, e.value.values):
                        kk = UNK if k is None else self.ev(f, k, env)
                        if kk is UNK:
                            return None
                        if kk == kv:
                            hit = x          # (the last equal key wins)
                    return None if hit is None else self._cpath(f, hit, env)
                elts = e.value.elts
                if isinstance(kv, int) and -len(elts) <= kv < len(elts) and \
                        not any(isinstance(x, ast.Starred) for x in elts):
                    return self._cpath(f, elts[kv], env)
                return None
            b = self._cpath(f, e.value, env)
            if b is None or b[1] is None:
                return b
            kv = self.ev(f, e.slice, env)
            if kv is UNK or not isinstance(kv, (str, int, bool, type(None))):
                return b[0], None
            el = _get_path(env.get(b[0], UNK), b[1] + (kv,))
            if isinstance(el, Alias):
                # the element IS another variable's list / dict (a table
                # built from existing containers): the effect goes there
                k = deref(env, el.key)
                return (k, ()) if isinstance(env.get(k), (list, dict)) \
                    else (b[0], None)
            return b[0], b[1] + (kv,)
        if isinstance(e, ast.IfExp):
            t = truth(self.ev(f, e.test, env))
            if t is None:
                a, b = self._cpath(f, e.body, env), \
                    self._cpath(f, e.orelse, env)
                if a is not None and b is not None and a[0] == b[0]:
                    return a[0], None
                return None
            return self._cpath(f, e.body if t else e.orelse, env)
        return None

    def effects(self, f, node, edge, env, depth):
        a = node.ast
        if node.kind == 'stmt' and a is not None:
            env2 = self._container_effect(f, node, a, env)
            if env2 is not None:
                return [env2]
        return Interp.effects(self, f, node, edge, env, depth)

    def _blur(self, env, root):
        """nothing is known any more about variable root - nor about the
        containers of other variables it holds by reference"""
        for k in [root] + sorted(_shared_targets(env.get(root), env)):
            self._kill(env, k, keep_self=False)
            env[k] = UNK

    def _grow(self, f, node, recv, items, env):
        """environment after the list denoted (by reference) by recv received
        items (a list of values, UNK: some); None: recv is a plain variable
        or no container expression - the generic treatment applies"""
        cp = self._cpath(f, recv, env)
        if cp is None:
            if isinstance(recv, ast.IfExp):
                # one of two containers, the test cannot be evaluated
                env = dict(env)
                for br in (recv.body, recv.orelse):
                    bp = self._cpath(f, br, env)
                    if bp is not None:
                        self._blur(env, bp[0])
                return env
            if _key_of(recv) is None:
                # some container reached through an expression this reading
                # does not follow: whatever it mentions may have grown
                env = dict(env)
                for nm in sorted(_recv_roots(recv)):
                    k = deref(env, nm)
                    if isinstance(env.get(nm), _Ref):
                        k = env[nm].root
                    if isinstance(env.get(k), (list, dict)) or \
                            _shared_targets(env.get(k), env):
                        self._blur(env, k)
                return env
            return None
        if cp[1] == () and isinstance(recv, ast.Name) and \
                not isinstance(env.get(recv.id), _Ref):
            return None
        root, path = cp
        env = dict(env)
        cur = UNK if path is None else _get_path(env[root], path)
        if not isinstance(cur, list):
            # an element that cannot be told receives the items: nothing
            # below the variable is known any more
            self._blur(env, root)
            return env
        if isinstance(items, list) and \
                all('@L%d' % h in env for h in node.loops):
            new = cur + items
        else:
            new = UNK
        env[root] = _set_path(env[root], path, new)
        return env

    def _list_ref(self, f, e, env):
        """variable whose LIST object expression e denotes, or None"""
        if isinstance(e, ast.Starred):
            return None
        k = self.ref_of(f, e, env)
        return k if k is not None and isinstance(env.get(k), list) else None

    def _shared_display(self, f, e, env):
        """(value, referenced variables) of a dict / list / tuple display or
        dict(k=v, ..) call some of whose elements ARE list / dict objects of
        other variables (`{True: exe_tasks, False: raptor_tasks}`): those
        elements are held as Alias(variable); None: no such element"""
        if isinstance(e, ast.Dict):
            keys, vals = e.keys, e.values
        elif isinstance(e, (ast.List, ast.Tuple)):
            keys, vals = None, e.elts
        elif isinstance(e, ast.Call) and isinstance(e.func, ast.Name) and \
                e.func.id == 'dict' and not e.args and e.keywords and \
                'dict' not in env:
            keys = [None if k.arg is None else ast.Constant(value=k.arg)
                    for k in e.keywords]
            vals = [k.value for k in e.keywords]
        else:
            return None
        refs = [self._list_ref(f, x, env) for x in vals]
        if not any(r is not None for r in refs):
            return None
        used = sorted({r for r in refs if r is not None})
        items = [Alias(r) if r is not None else self.ev(f, x, env)
                 for r, x in zip(refs, vals)]
        if keys is None:
            if any(isinstance(x, ast.Starred) for x in vals):
                return UNK, used
            return (tuple(items) if isinstance(e, ast.Tuple) else items), used
        out = {}
        for k, v in zip(keys, items):
            kv = UNK if k is None else self.ev(f, k, env)
            try:
                if kv is UNK:
                    return UNK, used
                out[kv] = v
            except TypeError:
                return UNK, used
        return out, used

    def _container_effect(self, f, node, a, env):
        """environment after statement a if it adds to / binds a name to /
        builds a table of containers reached through an expression; None: not
        that shape (the generic treatment applies)"""
        if isinstance(a, ast.Expr) and isinstance(a.value, ast.Call) and \
                isinstance(a.value.func, ast.Attribute) and \
                a.value.func.attr in I.MUTATING:
            c = a.value
            recv = c.func.value
            if c.func.attr in ('append', 'extend') and len(c.args) == 1 \
                    and not c.keywords and \
                    not isinstance(c.args[0], ast.Starred):
                v = self.ev(f, c.args[0], env)
                if c.func.attr == 'append':
                    items = [v]
                else:
                    items = list(v) if isinstance(v, (list, tuple)) else UNK
            else:
                items = UNK
            if c.func.attr != 'append' and _key_of(recv) is not None and \
                    not (isinstance(recv, ast.Name) and
                         isinstance(env.get(recv.id), _Ref)) and \
                    not (self._shared and isinstance(recv, ast.Subscript)):
                return None
            return self._grow(f, node, recv, items, env)
        if isinstance(a, ast.AugAssign) and isinstance(a.op, ast.Add):
            # `bucket += [t]` / `routes[k] += [t]`: a list grows in place
            t = a.target
            via_ref = isinstance(t, ast.Name) and isinstance(
                env.get(t.id), (_Ref, Alias))
            if via_ref or (isinstance(t, ast.Subscript) and (
                    _key_of(t) is None or self._shared)):
                cp = self._cpath(f, t, env)
                if cp is not None and cp[1] is not None and isinstance(
                        _get_path(env.get(cp[0], UNK), cp[1]), list):
                    v = self.ev(f, a.value, env)
                    items = list(v) if isinstance(v, (list, tuple)) else UNK
                    if isinstance(t, ast.Name) and isinstance(env.get(t.id),
                                                              Alias):
                        # (_grow leaves plain variables to the generic code)
                        env = dict(env)
                        k = cp[0]
                        env[k] = env[k] + items if isinstance(items, list) \
                            and all('@L%d' % h in env for h in node.loops) \
                            else UNK
                        return env
                    return self._grow(f, node, t, items, env)
                if cp is not None and isinstance(t, ast.Subscript):
                    env = dict(env)
                    self._blur(env, cp[0])
                    return env
            return None
        if isinstance(a, ast.Assign) and len(a.targets) == 1 and \
                isinstance(a.targets[0], ast.Name) and \
                isinstance(a.value, (ast.Subscript, ast.IfExp)):
            cp = self._cpath(f, a.value, env)
            if cp is None or cp[1] is None:
                return None
            root, path = cp
            if root == a.targets[0].id or \
                    not isinstance(_get_path(env[root], path), (list, dict)):
                return None
            if not path and not isinstance(a.value, ast.Subscript):
                return None
            env = dict(env)
            self._kill(env, a.targets[0].id, keep_self=False)
            env[a.targets[0].id] = _Ref(root, path) if path else Alias(root)
            return env
        if isinstance(a, ast.Assign) and len(a.targets) == 1 and \
                isinstance(a.targets[0], ast.Name):
            sd = self._shared_display(f, a.value, env)
            if sd is None:
                return None
            v, used = sd
            t = a.targets[0].id
            env = dict(env)
            if t in used:
                for k in used:
                    self._blur(env, k)
                v = UNK
            elif v is UNK:
                for k in used:
                    self._blur(env, k)
            self._kill(env, t, keep_self=False)
            env[t] = v
            self._shared = True
            return env
        if isinstance(a, ast.Assign) and len(a.targets) == 1 and \
                isinstance(a.targets[0], ast.Subscript) and \
                not isinstance(a.targets[0].slice, ast.Slice) and \
                isinstance(a.targets[0].value, ast.Name):
            # `routes[key] = exe_tasks`: the table holds that very list
            ref = self._list_ref(f, a.value, env)
            t = a.targets[0]
            tv = env.get(deref(env, t.value.id))
            if ref is None or not isinstance(tv, dict) or \
                    isinstance(env.get(t.value.id), _Ref):
                return None
            root = deref(env, t.value.id)
            kv = self.ev(f, t.slice, env)
            env = dict(env)
            if root == ref or kv is UNK or \
                    not isinstance(kv, (str, int, bool, type(None))):
                self._blur(env, root)
                self._blur(env, ref)
                return env
            for k in list(env):
                if k.startswith(root + '['):
                    del env[k]
            d = dict(tv)
            d[kv] = Alias(ref)
            env[root] = d
            self._shared = True
            return env
        return None

    def _call(self, f, c, env):
        fn = c.func
        if isinstance(fn, ast.Attribute) and fn.attr in ('startswith',
                                                         'endswith') \
                and len(c.args) == 1 and not c.keywords:
            base = self.ev(f, fn.value, env)
            arg = self.ev(f, c.args[0], env)
            if isinstance(base, str) and (isinstance(arg, str) or (
                    isinstance(arg, tuple) and
                    all(isinstance(x, str) for x in arg))):
                return getattr(base, fn.attr)(arg)
            return UNK
        return Interp._call(self, f, c, env)


def _interp(prog, cls, observe, schema=None):
    if schema is None:
        try:
            schema = _schema_keys(prog)
        except AnalysisError:
            schema = ()
    ip = _DInterp(prog, cls, observe=observe)
    ip.schema = set(schema)
    return ip


def _worker_modes(prog):
    """{mode value: dispatcher text} registered by Worker.__init__"""
    init = prog.method(WK[0], WK[1], '__init__')
    out = {}
    for c in calls_in(init.node):
        if call_name(c) == 'self.register_mode' and len(c.args) >= 1:
            v = prog.fold(init.module, c.args[0], init.cls)
            if not isinstance(v, str):
                raise AnalysisError('UNRECOGNISED-IDIOM %s: mode registered '
                                    'by %s does not fold' % (init.where,
                                                             short(c, 50)))
            out[v] = unparse(c.args[1]) if len(c.args) > 1 else '?'
    if len(out) < 2:
        raise AnalysisError('UNRECOGNISED-IDIOM %s: the table of modes the '
                            'workers dispatch (self.register_mode calls) is '
                            'not found' % init.where)
    return out


def _named_keys(prog, f, cls, schema, skip=(), depth=2, _seen=None):
    """schema attributes that f (or a resolved callee which is not a route)
    can name: string constants, folded constant names, attribute names"""
    _seen = _seen if _seen is not None else set()
    if id(f.node) in _seen:
        return set()
    _seen.add(id(f.node))
    sk = set(schema)
    out = set()
    for n in walk(f.node):
        if isinstance(n, ast.Constant) and isinstance(n.value, str):
            if n.value in sk:
                out.add(n.value)
        elif isinstance(n, ast.Attribute):
            if n.attr in sk:
                out.add(n.attr)
            v = prog.fold(f.module, n, f.cls)
            if isinstance(v, str) and v in sk:
                out.add(v)
        elif isinstance(n, ast.Name) and isinstance(n.ctx, ast.Load):
            v = prog.fold(f.module, n, f.cls)
            if isinstance(v, str) and v in sk:
                out.add(v)
    if depth > 0:
        for c in calls_in(f.node):
            if call_name(c) in skip:
                continue
            try:
                g = prog.resolve_call(f, c, cls)
            except Exception:                               # noqa
                g = None
            if g is not None and g.node is not f.node:
                out |= _named_keys(prog, g, cls, schema, skip, depth - 1,
                                   _seen)
    return out


_DEFS = {}


def _single_defs(f):
    """{local name: value expr} of the names f assigns exactly once"""
    if id(f.node) not in _DEFS:
        stores, defs = {}, {}
        for n in walk(f.node):
            if isinstance(n, ast.Name) and isinstance(n.ctx, ast.Store):
                stores[n.id] = stores.get(n.id, 0) + 1
        for s in walk(f.node):
            if isinstance(s, ast.Assign) and len(s.targets) == 1 and \
                    isinstance(s.targets[0], ast.Name) and \
                    stores.get(s.targets[0].id) == 1:
                defs[s.targets[0].id] = s.value
        _DEFS.clear()                   # one function at a time is enough
        _DEFS[id(f.node)] = (f.node, defs)
    return _DEFS[id(f.node)][1]


class _Tri:
    """three-valued reading of the tests of a method of the description over
    (mode = m, {attribute: set / unset})"""

    def __init__(self, prog, f, mode, track, schema):
        self.prog, self.f, self.mode = prog, f, mode
        self.track, self.schema = set(track), set(schema)
        self.defs = _single_defs(f)
        self.me = f.params[0] if f.params else 'self'

    def res(self, e, depth=0):
        while isinstance(e, ast.Name) and e.id in self.defs and depth < 4:
            e = self.defs[e.id]
            depth += 1
        return e

    def attr(self, e):
        """(attribute, default expr or None) read by e from the description"""
        e = self.res(e)
        if isinstance(e, ast.Call) and isinstance(e.func, ast.Attribute) and \
                e.func.attr == 'get' and 1 <= len(e.args) <= 2 and \
                not e.keywords and self._is_me(e.func.value):
            k = self.prog.fold(self.f.module, e.args[0], self.f.cls)
            if isinstance(k, str):
                return k, (e.args[1] if len(e.args) == 2 else None)
        if isinstance(e, ast.Subscript) and self._is_me(e.value):
            k = self.prog.fold(self.f.module, e.slice, self.f.cls)
            if isinstance(k, str):
                return k, None
        if isinstance(e, ast.Attribute) and self._is_me(e.value) and \
                e.attr in self.schema:
            return e.attr, None
        return None, None

    def _is_me(self, e):
        e = self.res(e)
        return isinstance(e, ast.Name) and e.id == self.me

    def value(self, e):
        """concrete value of e or UNK"""
        e = self.res(e)
        k, _ = self.attr(e)
        if k == 'mode':
            return self.mode
        if k is not None:
            return UNK
        if isinstance(e, (ast.List, ast.Tuple, ast.Set)):
            vals = [self.value(x) for x in e.elts]
            return UNK if any(v is UNK for v in vals) else vals
        return self.prog.fold(self.f.module, e, self.f.cls)

    def truth(self, e, st):
        """True / False / None"""
        e = self.res(e)
        k, dflt = self.attr(e)
        if k == 'mode':
            return True
        if k is not None:
            t = dict(st).get(k)
            if t is False and dflt is not None:
                return self.truth(dflt, st)
            return t
        if isinstance(e, ast.Constant):
            return bool(e.value)
        if isinstance(e, ast.UnaryOp) and isinstance(e.op, ast.Not):
            t = self.truth(e.operand, st)
            return None if t is None else not t
        if isinstance(e, ast.BoolOp):
            ts = [self.truth(x, st) for x in e.values]
            if isinstance(e.op, ast.And):
                return False if False in ts else (None if None in ts
                                                  else True)
            return True if True in ts else (None if None in ts else False)
        if isinstance(e, ast.Compare) and len(e.ops) == 1:
            l, r = self.value(e.left), self.value(e.comparators[0])
            if l is UNK or r is UNK:
                return None
            c = Interp._cmp(e.ops[0], l, r)
            return None if c is UNK else bool(c)
        if isinstance(e, ast.Call) and isinstance(e.func, ast.Name) and \
                e.func.id == 'bool' and len(e.args) == 1 and not e.keywords:
            return self.truth(e.args[0], st)
        v = self.prog.fold(self.f.module, e, self.f.cls)
        if v is UNK:
            return None
        try:
            return bool(v)
        except Exception:                                   # noqa
            return None

    def assume(self, e, want, st):
        """st refined by `bool(e) is want`; None if that cannot be"""
        e = self.res(e)
        t = self.truth(e, st)
        if t is not None:
            return st if t == want else None
        if isinstance(e, ast.UnaryOp) and isinstance(e.op, ast.Not):
            return self.assume(e.operand, not want, st)
        if isinstance(e, ast.Call) and isinstance(e.func, ast.Name) and \
                e.func.id == 'bool' and len(e.args) == 1 and not e.keywords:
            return self.assume(e.args[0], want, st)
        if isinstance(e, ast.BoolOp):
            conj = isinstance(e.op, ast.And)
            if want == conj:
                # all operands are `want`
                for x in e.values:
                    st = self.assume(x, want, st)
                    if st is None:
                        return None
                return st
            open_ = [x for x in e.values if self.truth(x, st) is None]
            if len(open_) == 1:
                return self.assume(open_[0], want, st)
            return st
        k, dflt = self.attr(e)
        if k is not None and k != 'mode' and k in self.track and \
                dflt is None:
            return frozenset(set(st) | {(k, want)})
        return st

    def store(self, target, value, st):
        """st after `target = value`"""
        k = None
        if isinstance(target, ast.Subscript) and self._is_me(target.value):
            k = self.prog.fold(self.f.module, target.slice, self.f.cls)
        elif isinstance(target, ast.Attribute) and self._is_me(target.value):
            k = target.attr
        if not isinstance(k, str) or k not in self.schema:
            return st
        if k == 'mode':
            raise AnalysisError('UNRECOGNISED-IDIOM %s: the mode of a '
                                'description that has one (%r) is reassigned'
                                % (self.f.where, self.mode))
        if k not in self.track:
            return st
        st = frozenset(x for x in st if x[0] != k)
        t = None if value is None else self.truth(value, st)
        return st if t is None else frozenset(set(st) | {(k, t)})


def _verify_facts(prog, mode, track, schema):
    """(required, forbidden): attributes among `track` that are set / unset
    in every description of this mode which TaskDescription._verify lets
    pass"""
    f = prog.method(TD[0], TD[1], '_verify')
    g = cfg_of(f)
    tri = _Tri(prog, f, mode, track, schema)

    def transfer(node, edge, st):
        if edge.label == 'exc':
            return st
        a = node.ast
        if node.kind == 'test' and edge.label in ('T', 'F'):
            return tri.assume(a, edge.label == 'T', st)
        if node.kind == 'stmt' and a is not None:
            if isinstance(a, ast.Assign):
                for t in a.targets:
                    st = tri.store(t, a.value, st)
            elif isinstance(a, (ast.AugAssign, ast.AnnAssign)):
                st = tri.store(a.target, None, st)
            elif isinstance(a, ast.Delete):
                for t in a.targets:
                    st = tri.store(t, ast.Constant(value=None), st)
        return st

    ex = Exploration(g, g.entry.id, frozenset(), transfer)
    finals = [dict(t.state) for t in ex.terminals if t.node == g.exit.id]
    if not finals:
        raise AnalysisError('UNRECOGNISED-IDIOM %s: no path accepts a '
                            'description of mode %r' % (f.where, mode))
    req = {k for k in track if all(d.get(k) is True for d in finals)}
    forb = {k for k in track if all(d.get(k) is False for d in finals)}
    return req, forb, ex.states


def _route_of(prog, f, cls, param, descr, want, schema=None):
    """('ok' | 'wrong' | 'mixed' | 'unknown', text): where _submit_tasks hands
    one request with this description, over all paths of the interpreter"""
    calls = []

    def observe(fn, node, env):
        if fn is not f or node.kind != 'stmt' or node.ast is None:
            return
        for c in calls_in(node.ast):
            if call_name(c) in ROUTES and c.args:
                calls.append((call_name(c), ip.ev(fn, c.args[0], env)))

    ip = _interp(prog, cls, observe, schema)
    ip.run(f, {param: [{'uid': TUID, 'description': descr}]})
    per = {}
    for name, v in calls:
        if not isinstance(v, list) or any(
                not isinstance(x, dict) or x.get('uid') is UNK for x in v):
            return 'unknown', 'the list handed to %s cannot be evaluated' \
                % name[5:], ip.states
        per.setdefault(name, []).append(
            any(x.get('uid') == TUID for x in v))
    if not per:
        return 'unknown', 'no submit call is reached', ip.states
    right = per.get(want, [])
    wrong = {n: bs for n, bs in per.items() if n != want}
    if right and all(right) and not any(any(bs) for bs in wrong.values()):
        return 'ok', ROUTES[want], ip.states
    always_wrong = sorted(ROUTES[n] for n, bs in wrong.items()
                          if bs and all(bs))
    if always_wrong:
        return 'wrong', ' and '.join(
            always_wrong + ([ROUTES[want]] if right and all(right) else [])),\
            ip.states
    if not any(right) and not any(any(bs) for bs in wrong.values()):
        # in no list at all: a dropped request is R20.5's finding; here it
        # may as well be an append the interpreter could not follow
        return 'unknown', 'the request is seen in neither list', ip.states
    return 'mixed', 'either route', ip.states



def _seen_of(prog, f, cls, param, descr, schema=None):
    """('ok' | 'wrong' | 'mixed' | 'unknown', text): is one request with this
    description marked raptor_seen when Master._request_cb submits it"""
    res = []

    def observe(fn, node, env):
        if fn is not f or node.kind != 'stmt' or node.ast is None:
            return
        for c in calls_in(node.ast):
            if call_name(c) not in SUBMITS or not c.args:
                continue
            v = ip.ev(fn, c.args[0], env)
            if not isinstance(v, list) or any(
                    not isinstance(x, dict) or x.get('uid') is UNK
                    for x in v) or \
                    not any(x.get('uid') == TUID for x in v):
                res.append(None)
                continue
            # the request as the submitted list has it, and as every local
            # name bound to it has it (the loop variable that was marked)
            copies = [x for x in v if x.get('uid') == TUID] + \
                     [x for x in env.values() if isinstance(x, dict) and
                      x.get('uid') == TUID]
            marks = [truth(x.get('raptor_seen')) for x in copies]
            res.append(True if True in marks else
                       None if None in marks else False)

    ip = _interp(prog, cls, observe, schema)
    ip.run(f, {param: [{'uid': TUID, 'description': descr}]})
    if not res or None in res:
        return 'unknown', 'the list of requests submitted by %s cannot be ' \
            'evaluated' % f.qual, ip.states
    if all(res):
        return 'ok', 'marked', ip.states
    if not any(res):
        return 'wrong', 'not marked', ip.states
    return 'mixed', 'marked on some paths only', ip.states


def _subsets(keys, cap=4):
    keys = sorted(keys)
    if len(keys) <= cap:
        out = [()]
        for k in keys:
            out += [s + (k,) for s in out]
        return sorted(out, key=lambda s: (len(s), s))
    out = [()] + [(k,) for k in keys] + [tuple(keys)]
    out += [tuple(x for x in keys if x != k) for k in keys]
    return out


def _concrete(mode, req, S, schema):
    d = {'mode': mode}
    d.update({k: schema.get(k, SET) for k in req})
    d.update({k: schema.get(k, SET) for k in S})
    return d


def _attrs_text(mode, req, S):
    return ', '.join(['mode=%r' % mode] +
                     ['%s=<set> (required by _verify)' % k
                      for k in sorted(req)] +
                     ['%s=<set>' % k for k in S])


def _three_valued(rep, run, mode, req, forb, named, schema):
    """run(descr) -> (verdict, text, states).  None if the outcome is right
    for the description of this mode in which every attribute _verify leaves
    open is unknown; else (S, text) of a concrete admissible description
    (required attributes and those in S set, nothing else) on which every
    path has the wrong outcome.  AnalysisError if there is none: the outcome
    then depends on something that cannot be evaluated."""
    # (attributes the code cannot name are represented by one unknown entry:
    # whatever looks at the description as a whole evaluates to unknown)
    descr = {k: UNK for k in named}
    descr['<any other attribute>'] = UNK
    descr.update({k: schema.get(k, SET) for k in req})
    descr.update({k: None for k in forb})
    descr['mode'] = mode
    verdict, txt, n = run(descr)
    rep.stat('interp_states', n)
    if verdict == 'ok':
        return None
    for S in _subsets(set(named) - set(req) - set(forb)):
        v2, t2, n = run(_concrete(mode, req, S, schema))
        rep.stat('interp_states', n)
        if v2 == 'wrong':
            return S, t2
    raise AnalysisError('UNRECOGNISED-IDIOM: the outcome for a request of '
                        'mode %r cannot be evaluated (%s)' % (mode, txt))


SUBMITS = ('self.submit_tasks', 'self._submit_tasks')


def r20_7(prog, rep, rid='R20.7'):
    rep.rule(rid, 'routing table of Master._submit_tasks over all request '
             'modes: TASK_EXECUTABLE -> agent executor path, every mode the '
             'workers dispatch (Worker.register_mode) -> the workers, for '
             'every description TaskDescription._verify admits for the mode '
             '(required attributes set, all others arbitrary); _request_cb '
             'marks every such TASK_EXECUTABLE request raptor_seen',
             minimum=8)
    f = prog.method(MA[0], MA[1], '_submit_tasks')
    rq = prog.method(MA[0], MA[1], '_request_cb')
    M = prog.cls(*MA)
    rep.saw(f)
    rep.saw(rq)
    rep.saw(prog.method(TD[0], TD[1], '_verify'))
    exe = prog.const(TD[0], 'TASK_EXECUTABLE')
    schema = _schema_keys(prog)
    wmodes = _worker_modes(prog)
    if exe in wmodes:
        raise AnalysisError('UNRECOGNISED-IDIOM: the workers register a '
                            'dispatcher for %r' % exe)
    param = [p for p in f.params if p != 'self'][0]
    qparam = [p for p in rq.params if p != 'self'][0]
    named = _named_keys(prog, f, M, schema, skip=set(ROUTES)) - {'mode'}
    qnamed = _named_keys(prog, rq, M, schema, skip=set(SUBMITS)) - {'mode'}
    table = [(exe, R_EXE)] + [(m, R_WRK) for m in sorted(wmodes)]
    for mode, want in table:
        req, forb, n = _verify_facts(prog, mode, named, schema)
        rep.stat('paths_enumerated', n)
        what = 'mode %s -> %s for every admissible description' \
               % (mode, ROUTES[want])
        witness = _three_valued(
            rep, lambda d: _route_of(prog, f, M, param, d, want, schema),
            mode, req, forb, named, schema)
        if witness is None:
            rep.ok(rid, f, what, f.loc())
            continue
        S, went = witness
        attrs = _attrs_text(mode, req, S)
        if want == R_WRK:
            cons = 'no worker ever sees it (%s never runs it)' \
                   % wmodes.get(mode, 'its dispatcher')
            if _seen_of(prog, rq, M, qparam,
                        _concrete(mode, req, S, schema),
                        schema)[0] == 'wrong':
                cons += '; %s does not mark it raptor_seen, so the agent ' \
                        'scheduler forwards it to the master again and it ' \
                        'circulates without reaching a final state' % rq.qual
        else:
            cons = 'the workers have no dispatcher for this mode: the ' \
                   'request never runs on the pilot\'s execution path'
        rep.bad(rid, f, 'table:%s' % mode,
                '%s: a request with description {%s} is handed to %s; the '
                'route must be a function of the mode alone and mode %r '
                'belongs to %s: %s'
                % (f.qual, attrs, went, mode, ROUTES[want], cons),
                f.loc(),
                history='master.submit_tasks of a bulk with one %s request '
                '(%s) next to one task.executable and one task.function '
                'request' % (mode, attrs))
    # the cooperating site: what goes to the executor path comes back to the
    # agent scheduler, which forwards it to the master again unless it is
    # marked
    req, forb, n = _verify_facts(prog, exe, qnamed, schema)
    rep.stat('paths_enumerated', n)
    witness = _three_valued(
        rep, lambda d: _seen_of(prog, rq, M, qparam, d, schema),
        exe, req, forb, qnamed, schema)
    if witness is None:
        rep.ok(rid, rq, 'every admissible %s request is marked raptor_seen '
               'before it is submitted' % exe, rq.loc())
    else:
        S, txt = witness
        attrs = _attrs_text(exe, req, S)
        rep.bad(rid, rq, 'seen:%s' % exe,
                '%s: a request with description {%s} is %s raptor_seen when '
                'it is submitted; %s pushes it to the agent executor path, '
                'the agent scheduler sees a raptor_id without raptor_seen '
                'and forwards it to the master again: the request circulates '
                'and never runs' % (rq.qual, attrs, txt, f.qual), rq.loc(),
                history='the agent scheduler forwards one %s request (%s) '
                'to the master' % (exe, attrs))


# ------------------------------------------------------------------------------
# R20.9  a request is registered before it is dispatched
#
# A method that enters a request into a table (`self.T[key] = entry`) which a
# callback running on another thread looks up, and that also hands the request
# on (queue put, advance with push, process start - directly or through the
# methods it calls), must have registered before the hand-on takes effect: the
# answer may be handled by the callback thread at once, and a callback that
# finds no entry drops the answer (nobody is woken up) or fails.  The order
# does not matter when both sites sit in one critical section of a lock that
# every lookup of the table holds as well.
#
REG_CLASSES = (MA, WD)


def _pkg_methods(prog, C):
    """{name: FuncInfo}: methods the class sees that live in raptor/"""
    return {n: f for n, f in I.class_methods(prog, C).items()
            if f.module.rel.startswith('raptor/')}


def _callback_methods(prog, C, methods):
    """names of methods that are handed to somebody as a callable (cb=,
    target=, register_*(.., self.m)) and of everything those call: they run
    on a thread of their own, concurrently with the caller that registered
    them"""
    seeds = set()
    for f in methods.values():
        for c in calls_in(f.node, nested=True):
            for a in list(c.args) + [k.value for k in c.keywords]:
                if isinstance(a, ast.Attribute) and \
                        isinstance(a.value, ast.Name) and \
                        a.value.id == 'self' and a.attr in methods:
                    seeds.add(a.attr)
    todo = list(seeds)
    while todo:
        n = todo.pop()
        for c in calls_in(methods[n].node, nested=True):
            g = prog.resolve_call(methods[n], c, C)
            if g is not None and methods.get(g.name) is g and \
                    g.name not in seeds:
                seeds.add(g.name)
                todo.append(g.name)
    return seeds


def _self_table(e):
    """'T' for the expression self.T"""
    if isinstance(e, ast.Attribute) and isinstance(e.value, ast.Name) and \
            e.value.id == 'self':
        return e.attr
    return None


def _table_lookups(f):
    """[(table, ast node)] for `k in self.T`, `self.T[k]` (read / del),
    self.T.get / pop (k)"""
    out = []
    for n in walk(f.node):
        if isinstance(n, ast.Compare):
            for op, r in zip(n.ops, n.comparators):
                if isinstance(op, (ast.In, ast.NotIn)) and _self_table(r):
                    out.append((_self_table(r), n))
        elif isinstance(n, ast.Subscript) and _self_table(n.value) and \
                isinstance(n.ctx, (ast.Load, ast.Del)):
            out.append((_self_table(n.value), n))
        elif isinstance(n, ast.Call) and isinstance(n.func, ast.Attribute) \
                and n.func.attr in ('get', 'pop') and \
                _self_table(n.func.value) and n.args:
            out.append((_self_table(n.func.value), n))
    return out


def _registrations(f):
    """[(table, stmt / call, [key and entry expressions])] for
    `self.T[key] = entry` and self.T.setdefault(key, entry) with a key that
    is not a constant"""
    out = []
    for kind, target, stmt in I.stores(f.node):
        if kind == 'assign' and isinstance(target, ast.Subscript) and \
                _self_table(target.value) and \
                not isinstance(target.slice, ast.Constant) and \
                isinstance(stmt, ast.Assign):
            out.append((_self_table(target.value), stmt,
                        [target.slice, stmt.value]))
        elif kind == 'mutate' and isinstance(stmt, ast.Call) and \
                stmt.func.attr == 'setdefault' and _self_table(target) and \
                stmt.args and not isinstance(stmt.args[0], ast.Constant):
            out.append((_self_table(target), stmt, list(stmt.args)))
    return out


def _starts_process(f, c):
    """c is `<x>.start()` on a local bound to a Process / Thread object"""
    if not (isinstance(c.func, ast.Attribute) and c.func.attr == 'start' and
            isinstance(c.func.value, ast.Name) and not c.args):
        return False
    for s in walk(f.node):
        if isinstance(s, ast.Assign) and isinstance(s.value, ast.Call) and \
                any(isinstance(t, ast.Name) and t.id == c.func.value.id
                    for t in s.targets) and \
                call_name(s.value).split('.')[-1] in ('Process', 'Thread'):
            return True
    return False


def _direct_dispatch(f, c):
    """text of what kind of hand-on call c is, or None"""
    if I.is_handon(c) and I.flag(c, 'push', False) is True:
        return 'advance(push=True)'
    if isinstance(c.func, ast.Attribute) and c.func.attr == 'put' and \
            _self_table(c.func.value) and c.args:
        return 'self.%s.put()' % _self_table(c.func.value)
    if _starts_process(f, c):
        return 'process start'
    return None


class _RegDispatch:
    """per class: what each method registers / hands on, itself or through
    the self methods it calls"""

    DEPTH = 5

    def __init__(self, prog, C):
        self.prog, self.C = prog, C
        self.methods = _pkg_methods(prog, C)
        self.memo = {}

    def summary(self, f, depth=0):
        k = id(f.node)
        if k in self.memo:
            return self.memo[k]
        s = {'tables': set(), 'dispatch': None}
        self.memo[k] = s                    # recursion guard
        for t, stmt, parts in _registrations(f):
            s['tables'].add(t)
        for c in calls_in(f.node):
            d = _direct_dispatch(f, c)
            if d is None and depth < self.DEPTH:
                g = self.callee(f, c)
                if g is not None:
                    cs = self.summary(g, depth + 1)
                    s['tables'] |= cs['tables']
                    if cs['dispatch']:
                        d = '%s() -> %s' % (g.name, cs['dispatch'])
            if d and not s['dispatch']:
                s['dispatch'] = d
        return s

    def callee(self, f, c):
        if not (isinstance(c.func, ast.Attribute) and
                isinstance(c.func.value, ast.Name) and
                c.func.value.id == 'self'):
            return None
        g = self.prog.resolve_call(f, c, self.C)
        if g is None or g.node is f.node or self.methods.get(g.name) is not g:
            return None
        return g


def _lock_of(with_ast):
    for it in with_ast.items:
        t = unparse(it.context_expr)
        if t.startswith('self.'):
            return t
    return None


class _InfoOnly:
    """report adapter for classes that are not anchored: a finding becomes an
    information line, nothing is counted"""

    def __init__(self, rep):
        self.rep = rep

    def saw(self, f):
        pass

    def ok(self, *a, **k):
        pass

    def bad(self, rid, where, construct, message, loc=None, history=None,
            path=None):
        self.rep.info(rid, where, '(not an anchored class) ' + message, loc)


def r20_9(prog, rep, rid='R20.9', tier='quick'):
    rep.rule(rid, 'a method that enters a request into a table which a '
             'callback thread looks up and also hands the request on '
             '(queue put / advance(push) / process start, directly or '
             'through the methods it calls) registers before it hands on - '
             'or both happen inside one critical section that every lookup '
             'of the table holds too', minimum=2)
    todo = [(prog.cls(rel, cname), rep) for rel, cname in REG_CLASSES]
    if tier == 'thorough':
        armed = {id(C) for C, _ in todo}
        todo += [(C, _InfoOnly(rep)) for C in prog.all_classes()
                 if C.module.rel.startswith('raptor/') and id(C) not in armed]
    for C, out in todo:
        an = _RegDispatch(prog, C)
        methods = an.methods
        cbs = _callback_methods(prog, C, methods)
        lookups = {}            # table -> [(method, ast node)]
        for n, f in methods.items():
            for t, node in _table_lookups(f):
                lookups.setdefault(t, []).append((f, node))
        for mname, m in sorted(methods.items()):
            if mname == '__init__':
                continue
            g = cfg_of(m)
            smap = I.stmt_node_map(g)
            deps = None
            # registration and hand-on nodes of this method
            R, D = {}, []
            for t, stmt, parts in _registrations(m):
                n = smap.get(id(stmt))
                if n is not None:
                    R.setdefault(t, []).append((n, stmt, parts))
            for c in calls_in(m.node):
                n = smap.get(id(c))
                if n is None:
                    continue
                d = _direct_dispatch(m, c)
                gsum = None
                if d is None:
                    callee = an.callee(m, c)
                    if callee is not None:
                        gsum = an.summary(callee)
                        if gsum['dispatch']:
                            d = '%s() -> %s' % (callee.name, gsum['dispatch'])
                        for t in gsum['tables']:
                            R.setdefault(t, []).append(
                                (n, c, list(c.args) +
                                 [k.value for k in c.keywords]))
                if d:
                    what = list(c.args) + [k.value for k in c.keywords]
                    if isinstance(c.func, ast.Attribute) and \
                            c.func.attr == 'start':
                        what.append(c.func.value)
                    D.append((n, c, d, what))
            if not R or not D:
                continue
            out.saw(m)
            for t, regs in sorted(R.items()):
                # who looks the table up, on a callback thread
                seen_by = [(f, node) for f, node in lookups.get(t, [])
                           if f.name in cbs and f is not m]
                if not seen_by:
                    continue
                for dn, dc, dtxt, dwhat in D:
                    if deps is None:
                        deps = Deps(m.node)
                    dd = set()
                    for x in dwhat:
                        dd |= deps.expr_depends(x)
                    rel_regs = []
                    for rn, rs, parts in regs:
                        rd = set()
                        for x in parts:
                            rd |= deps.expr_depends(x)
                        common = {x for x in dd & rd if x != 'self' and
                                  not x.startswith('self.') and
                                  not x.startswith('ret:')}
                        if common:
                            rel_regs.append((rn, rs))
                    if not rel_regs:
                        continue
                    cbnames = sorted({f.qual for f, _ in seen_by})
                    what = '%s: entry in self.%s before `%s`' % (
                        m.qual, t, short(dc, 40))
                    # one critical section which every lookup holds too
                    locks = None
                    for rn, rs in rel_regs:
                        ls = {_lock_of(w) for w in rn.withs
                              if w in dn.withs} - {None}
                        locks = ls if locks is None else locks & ls
                    if locks:
                        held = True
                        for f, node in seen_by:
                            gn = I.stmt_node_map(cfg_of(f)).get(id(node))
                            if gn is None or not any(
                                    _lock_of(w) in locks for w in gn.withs):
                                held = False
                        if held:
                            out.ok(rid, m, what + ' (one critical section of '
                                   '%s, held by every lookup)'
                                   % '/'.join(sorted(locks)), m.loc(dc))
                            continue
                    rids = [rn.id for rn, rs in rel_regs]
                    if dn.id in rids or \
                            must_pass(g, g.entry.id, dn.id, rids):
                        out.ok(rid, m, what, m.loc(dc))
                        continue
                    # registrations that follow once the hand-on took effect
                    # (same pass through the enclosing loops: a later
                    # iteration handles another request)
                    after = set()
                    for e in g.succ[dn.id]:
                        if e.label != 'exc' and not e.back:
                            after |= g.reachable(e.dst, no_back=True)
                    late = [rs for rn, rs in rel_regs if rn.id in after]
                    if not late:
                        out.ok(rid, m, what + ' (no registration follows '
                               'the hand-on)', m.loc(dc))
                        continue
                    rs0 = late[0]
                    out.bad(rid, m, 'register:%s' % t,
                            '%s hands the request on (`%s`: %s) %s `%s`; '
                            'self.%s is looked up by %s on the callback '
                            'thread, which may handle the answer before the '
                            'entry exists: it finds nothing, the waiting '
                            'party is never notified (or the callback '
                            'fails) - the request does not come back'
                            % (m.qual, short(dc, 50), dtxt,
                               'before it registers it with', short(rs0, 60),
                               t, ', '.join(cbnames)),
                            m.loc(dc),
                            history='a request that completes at once (a '
                            'trivial call on an idle worker, or the thread '
                            'that hands it on is descheduled right after the '
                            'hand-on): %s runs before `%s` and finds no '
                            'entry for the request; whoever waits for the '
                            'entry to be completed (event.wait() of a '
                            'run_task() call) blocks forever'
                            % (cbnames[0], short(rs0, 40)))


# ------------------------------------------------------------------------------
#
# ------------------------------------------------------------------------------
# R20.10  the backlog of requests for a master that has not registered yet
#
BACKLOG = 'self._raptor_tasks'


def _old_cell_read(P, v, nid, key, knames=(), depth=0):
    """v (read at nid) reads the cell BACKLOG[key] / BACKLOG.get(key, ..) /
    BACKLOG.pop(key, ..), directly or through a local that was bound to such
    a read (under the same binding of the key)"""
    c = P.canon(v, nid)
    for x in ast.walk(v):
        if isinstance(x, ast.Name) and isinstance(x.ctx, ast.Load) and \
                depth < 3 and x.id not in P.f.params:
            ds = P.rdefs(x.id, nid)
            if len(ds) == 1 and ds[0][1] is not None and \
                    ds[0][0].kind == 'stmt' and \
                    P.same_binding(knames, ds[0][0].id, nid) and \
                    _old_cell_read(P, ds[0][1], ds[0][0].id, key, knames,
                                   depth + 1):
                return True
    for x in ast.walk(c):
        if isinstance(x, ast.Subscript) and unparse(x.value) == BACKLOG and \
                unparse(x.slice) == key:
            return True
        if isinstance(x, ast.Call) and isinstance(x.func, ast.Attribute) and \
                x.func.attr in ('get', 'pop', 'setdefault') and \
                unparse(x.func.value) == BACKLOG and x.args and \
                unparse(x.args[0]) == key:
            return True
    return False


def _touches_backlog(P, n):
    if n.kind != 'stmt' or n.ast is None or isinstance(
            n.ast, (ast.FunctionDef, ast.AsyncFunctionDef, ast.ClassDef)):
        return False
    for kind, target, stmt in I.stores(n.ast):
        if _is_prefix(BACKLOG, unparse(P.canon(target, n.id))):
            return True
    return any(isinstance(c.func, ast.Attribute) and
               c.func.attr in ('pop', 'setdefault', 'update', 'clear',
                               'popitem') and
               unparse(P.canon(c.func.value, n.id)) == BACKLOG
               for c in calls_in(n.ast))


def _absent_guard(P, node, key, key_names):
    """'absent' / 'present' / None: what the guards of node say about
    `key in BACKLOG`"""
    out = None
    for tid, lab in guards(P.g, node.id):
        a = P.g.nodes[tid].ast
        at = tid
        if isinstance(a, ast.Name):
            # the test result held in a local: `known = k in BACKLOG`
            ds = P.rdefs(a.id, tid)
            if len(ds) == 1 and ds[0][1] is not None and \
                    ds[0][0].kind == 'stmt':
                a, at = ds[0][1], ds[0][0].id
        neg = False
        while isinstance(a, ast.UnaryOp) and isinstance(a.op, ast.Not):
            a, neg = a.operand, not neg
        if neg:
            lab = 'F' if lab == 'T' else 'T'
        if not (isinstance(a, ast.Compare) and len(a.ops) == 1 and
                isinstance(a.ops[0], (ast.In, ast.NotIn))):
            continue
        if at != tid:
            # nothing enters / leaves the backlog between test and branch
            anc, todo = set(), [tid]
            while todo:
                for e in P.g.pred[todo.pop()]:
                    if not e.back and e.src not in anc:
                        anc.add(e.src)
                        todo.append(e.src)
            between = P.g.reachable(at, no_back=True) & anc
            if any(_touches_backlog(P, P.g.nodes[x]) for x in between
                   if x != at):
                continue
        tid = at
        c = P.canon(a, tid)
        cont = c.comparators[0]
        if isinstance(cont, ast.Call) and isinstance(cont.func, ast.Attribute) \
                and cont.func.attr == 'keys' and not cont.args:
            cont = cont.func.value
        if unparse(cont) != BACKLOG or unparse(c.left) != key or \
                not P.same_binding(key_names, tid, node.id):
            continue
        absent = isinstance(a.ops[0], ast.NotIn) == (lab == 'T')
        out = 'absent' if absent else 'present'
    return out


def _empty_list_here(P, v, nid):
    """v, read at nid, is a new empty list: a display / list(), or a local
    whose only definition is one and which is mentioned nowhere else"""
    if _is_new_list(v):
        return True
    if isinstance(v, ast.Name) and v.id not in P.f.params:
        ds = P.rdefs(v.id, nid)
        if len(ds) == 1 and ds[0][1] is not None and \
                ds[0][0].kind == 'stmt' and _is_new_list(ds[0][1]):
            loads = [x for x in walk(P.f.node) if isinstance(x, ast.Name) and
                     x.id == v.id and isinstance(x.ctx, ast.Load)]
            if len(loads) == 1:
                return True
            raise AnalysisError('UNRECOGNISED-IDIOM %s: cannot tell whether '
                                'the list `%s` is still empty where it is '
                                'offered to the backlog' % (P.f.where, v.id))
    return False


def _accumulates_later(P, node, key, knames):
    """some statement reachable from node adds to the cell BACKLOG[key]
    (+=, extend / append on the cell, a store) under the same binding of the
    key - further on in the same pass, not in a later loop iteration"""
    reach = P.g.reachable(node.id, no_back=True)
    for n in P.g.nodes:
        if n.id == node.id or n.id not in reach or n.kind != 'stmt' or \
                n.ast is None or isinstance(n.ast, (ast.FunctionDef,
                                                    ast.AsyncFunctionDef,
                                                    ast.ClassDef)):
            continue
        for kind, target, stmt in I.stores(n.ast):
            c = P.canon(target, n.id)
            if not (isinstance(c, ast.Subscript) and
                    unparse(c.value) == BACKLOG and unparse(c.slice) == key):
                continue
            if (kind == 'aug' or (kind == 'mutate' and stmt.func.attr in (
                    'extend', 'append', 'insert')) or kind == 'assign') and \
                    P.same_binding(knames, node.id, n.id):
                return True
    return False


def _backlog_call(P, rep, rid, m, node, call, hist):
    """BACKLOG.setdefault(k, v) / BACKLOG.update({k: v}) as stores into the
    cell of k: setdefault DROPS v when the cell exists, update OVERWRITES the
    cell when it exists - either loses requests unless the key is known to be
    absent (or v is a new empty list / holds the old content)"""
    rep.saw(m)
    txt = short(call, 60)
    if call.keywords or any(isinstance(a, ast.Starred) for a in call.args):
        raise AnalysisError('UNRECOGNISED-IDIOM %s: `%s`' % (m.where, txt))
    if call.func.attr == 'setdefault':
        if len(call.args) != 2:
            raise AnalysisError('UNRECOGNISED-IDIOM %s: `%s`' % (m.where, txt))
        pairs = [(call.args[0], call.args[1])]
    else:
        d = call.args[0] if len(call.args) == 1 else None
        if not isinstance(d, ast.Dict) or not d.keys or \
                any(k is None for k in d.keys):
            raise AnalysisError('UNRECOGNISED-IDIOM %s: `%s` stores backlog '
                                'cells whose keys cannot be told'
                                % (m.where, txt))
        pairs = list(zip(d.keys, d.values))
    discarded = isinstance(node.ast, ast.Expr) and node.ast.value is call
    for k, v in pairs:
        kc = P.canon(k, node.id)
        key = unparse(kc)
        knames = [n_ for n_ in _names(kc) if n_ != 'self']
        guard = _absent_guard(P, node, key, knames)
        if call.func.attr == 'update':
            if _old_cell_read(P, v, node.id, key, knames):
                rep.ok(rid, m, '`%s` keeps the old content of the cell' % txt,
                       m.loc(call))
                continue
            rep.check(guard == 'absent', rid, m,
                      '`%s` creates the backlog cell of a key that has none'
                      % txt, construct=call,
                      message='%s: `%s` overwrites the backlog cell %s[%s] %s:'
                      ' the backlog collects requests over many scheduling '
                      'rounds and is drained only when the master registers '
                      'its queue, so requests cached in an earlier round are '
                      'dropped - never relayed, never failed (accumulate with '
                      '+= instead)' % (
                          m.qual, txt, BACKLOG, key,
                          'on the path where the key is already present'
                          if guard == 'present' else
                          'without testing that the key is absent'),
                      loc=m.loc(call), history=hist)
            continue
        if _empty_list_here(P, v, node.id):
            rep.ok(rid, m, '`%s` creates an empty cell if there is none' % txt,
                   m.loc(call))
            continue
        if guard == 'absent':
            rep.ok(rid, m, '`%s` creates the backlog cell of a key that has '
                   'none' % txt, m.loc(call))
            continue
        if not discarded or _accumulates_later(P, node, key, knames):
            raise AnalysisError(
                'UNRECOGNISED-IDIOM %s: `%s` offers requests to the backlog '
                'cell as a default and the cell is used / extended '
                'afterwards: cannot tell whether they are added when the '
                'cell exists' % (m.where, txt))
        rep.bad(rid, m, call,
                '%s: `%s` stores the requests of this round only when the '
                'backlog cell %s[%s] does not exist yet; when it exists '
                '(requests cached in an earlier round - the backlog is '
                'drained only when the master registers its queue) '
                'setdefault keeps the old cell and the value offered is '
                'discarded: the requests of this round are dropped - never '
                'relayed, never failed (create the cell when absent and '
                'accumulate with += otherwise)' % (m.qual, txt, BACKLOG, key),
                m.loc(call),
                history='master.0000 has not registered its queue yet; '
                'scheduling round 1 brings req.0, req.1 for it (cached), '
                'round 2 brings req.2: setdefault finds the cell and drops '
                'req.2; register_raptor_queue relays only req.0, req.1 - '
                'req.2 is never relayed, never fails, never completes')


def r20_10(prog, rep, rid='R20.10'):
    rep.rule(rid, 'a store into a cell self._raptor_tasks[k] of the backlog '
             '(requests cached until their master registers; filled over '
             'many scheduling rounds, drained only by the registration) keeps '
             'what the cell holds: it is guarded by `k not in` the backlog, '
             'or it accumulates (+=, extend, old + new), or the old value '
             'was read out before the cell is reset', minimum=1)
    C = prog.cls(*SCH)
    attr = BACKLOG.split('.', 1)[1]
    hist = ('master.0000 has not registered its queue yet; scheduling round 1 '
            'brings req.0, req.1 for it (cached), round 2 brings req.2: the '
            'cell is overwritten; register_raptor_queue relays only req.2 - '
            'req.0 and req.1 are never relayed, never fail, never complete')
    for mname, m0 in sorted(C.methods.items()):
        if mname == '__init__':
            continue
        for m in all_funcs(m0):
            if not any(isinstance(x, ast.Attribute) and x.attr == attr
                       for x in walk(m.node)):
                continue
            P = _Paths(prog, m)
            for kind, target, stmt in I.stores(m.node):
                node = P.smap.get(id(stmt))
                if node is None:
                    continue
                if kind == 'mutate':
                    # BACKLOG[k].extend(..) / BACKLOG.setdefault(k, []).extend
                    c = P.canon(target, node.id)
                    cell = isinstance(c, ast.Subscript) and \
                        unparse(c.value) == BACKLOG or \
                        isinstance(c, ast.Call) and \
                        isinstance(c.func, ast.Attribute) and \
                        c.func.attr == 'setdefault' and \
                        unparse(c.func.value) == BACKLOG
                    if cell and stmt.func.attr in ('extend', 'append',
                                                   'insert'):
                        rep.saw(m)
                        rep.ok(rid, m, '`%s` adds to the backlog cell'
                               % short(stmt, 60), m.loc(stmt))
                    elif unparse(c) == BACKLOG and \
                            stmt.func.attr in ('setdefault', 'update'):
                        _backlog_call(P, rep, rid, m, node, stmt, hist)
                    continue
                if kind not in ('assign', 'aug'):
                    continue
                c = P.canon(target, node.id)
                # (the container as a whole is bound where the scheduler
                # process starts, before its loop: not a cell store)
                if not (isinstance(c, ast.Subscript) and
                        unparse(c.value) == BACKLOG):
                    continue
                rep.saw(m)
                key = unparse(c.slice)
                knames = [n_ for n_ in _names(c.slice) if n_ != 'self']
                guard = _absent_guard(P, node, key, knames)
                if kind == 'aug':
                    if not isinstance(stmt.op, ast.Add):
                        raise AnalysisError(
                            'UNRECOGNISED-IDIOM %s: `%s`' % (m.where,
                                                             short(stmt, 60)))
                    rep.check(guard != 'absent', rid, m,
                              '`%s` extends the backlog of %s' % (
                                  short(stmt, 60), key), construct=stmt,
                              message='%s: `%s` extends the backlog cell of '
                              'a key that is known to be absent (`%s not in '
                              '%s`): KeyError, the requests of this round '
                              'are lost with the exception'
                              % (m.qual, short(stmt, 60), key, BACKLOG),
                              loc=m.loc(stmt),
                              history='the first request for a master that '
                              'has not registered yet')
                    continue
                if not isinstance(stmt, ast.Assign) or len(stmt.targets) != 1:
                    raise AnalysisError('UNRECOGNISED-IDIOM %s: `%s`'
                                        % (m.where, short(stmt, 60)))
                v = stmt.value
                if _old_cell_read(P, v, node.id, key, knames):
                    rep.ok(rid, m, '`%s` keeps the old content of the cell'
                           % short(stmt, 60), m.loc(stmt))
                    continue
                if _is_new_list(v):
                    # reset after the content was read out (a drain)
                    readers = [n.id for n in P.g.nodes
                               if n.kind == 'stmt' and n.ast is not None and
                               n.id != node.id and not isinstance(
                                   n.ast, (ast.FunctionDef, ast.ClassDef)) and
                               _old_cell_read(P, n.ast, n.id, key) and
                               P.same_binding(knames, n.id, node.id)]
                    if readers and must_pass(P.g, P.g.entry.id, node.id,
                                             readers):
                        rep.ok(rid, m, '`%s` resets the cell after its '
                               'content was read' % short(stmt, 60),
                               m.loc(stmt))
                        continue
                rep.check(guard == 'absent', rid, m,
                          '`%s` creates the backlog cell of a key that has '
                          'none' % short(stmt, 60), construct=stmt,
                          message='%s: `%s` overwrites the backlog cell %s[%s]'
                          ' %s: the backlog collects requests over many '
                          'scheduling rounds and is drained only when the '
                          'master registers its queue, so requests cached in '
                          'an earlier round are dropped - never relayed, '
                          'never failed (accumulate with += instead)'
                          % (m.qual, short(stmt, 60), BACKLOG, key,
                             'on the path where the key is already present'
                             if guard == 'present' else
                             'without testing that the key is absent'),
                          loc=m.loc(stmt), history=hist)


# ------------------------------------------------------------------------------
# R20.13  a cell of the backlog / of the queue table is read in a branch that
#         a membership test opens only when the test is on THAT table
#
QUEUES = 'self._raptor_queues'


def _member_guards(P, node, key, key_names):
    """{container path: 'present' | 'absent'}: what the membership tests
    `key in self.<X>` among the guards of node say (tests held in a local are
    followed to their definition when the table was not touched in between)"""
    out = {}
    cache = P.__dict__.setdefault('_guard_cache', {})
    if node.id not in cache:
        cache[node.id] = guards(P.g, node.id)
    for tid, lab in cache[node.id]:
        a = P.g.nodes[tid].ast
        at = tid
        if isinstance(a, ast.Name):
            ds = P.rdefs(a.id, tid)
            if len(ds) == 1 and ds[0][1] is not None and \
                    ds[0][0].kind == 'stmt':
                a, at = ds[0][1], ds[0][0].id
        neg = False
        while isinstance(a, ast.UnaryOp) and isinstance(a.op, ast.Not):
            a, neg = a.operand, not neg
        if neg:
            lab = 'F' if lab == 'T' else 'T'
        if not (isinstance(a, ast.Compare) and len(a.ops) == 1 and
                isinstance(a.ops[0], (ast.In, ast.NotIn))):
            continue
        c = P.canon(a, at)
        cont = c.comparators[0]
        if isinstance(cont, ast.Call) and isinstance(cont.func, ast.Attribute) \
                and cont.func.attr == 'keys' and not cont.args:
            cont = cont.func.value
        ct = unparse(cont)
        if not (ct.startswith('self.') and ct.count('.') == 1 and
                isinstance(cont, ast.Attribute)) or \
                unparse(c.left) != key or \
                not P.same_binding(key_names, at, node.id):
            continue
        if at != tid:
            anc, todo = set(), [tid]
            while todo:
                for e in P.g.pred[todo.pop()]:
                    if not e.back and e.src not in anc:
                        anc.add(e.src)
                        todo.append(e.src)
            between = (P.g.reachable(at, no_back=True) & anc) - {at}
            touched = False
            for x in between:
                xn = P.g.nodes[x]
                if xn.kind != 'stmt' or xn.ast is None or isinstance(
                        xn.ast, (ast.FunctionDef, ast.AsyncFunctionDef,
                                 ast.ClassDef)):
                    continue
                if any(_is_prefix(ct, unparse(P.canon(t, x)))
                       for k, t, st in I.stores(xn.ast)):
                    touched = True
            if touched:
                continue
        absent = isinstance(a.ops[0], ast.NotIn) == (lab == 'T')
        out[ct] = 'absent' if absent else 'present'
    return out


def r20_13(prog, rep, rid='R20.13'):
    rep.rule(rid, 'in the agent scheduler a cell self._raptor_tasks[k] / '
             'self._raptor_queues[k] that is read or deleted in a branch '
             'opened by a membership test of the same key is opened by a test '
             'on that very table (or the cell was stored on the way): a test '
             'on the other table opens the branch for the wrong keys',
             minimum=4)
    C = prog.cls(*SCH)
    tables = (BACKLOG, QUEUES)
    attrs = {t.split('.', 1)[1] for t in tables}
    for mname, m0 in sorted(C.methods.items()):
        if mname == '__init__':
            continue
        for m in all_funcs(m0):
            if not any(isinstance(x, ast.Attribute) and x.attr in attrs
                       for x in walk(m.node)):
                continue
            P = _Paths(prog, m)
            g = P.g
            seen_site = set()
            for n in g.nodes:
                if n.ast is None or n.kind in ('while', 'dispatch',
                                               'handler') or isinstance(
                        n.ast, (ast.FunctionDef, ast.AsyncFunctionDef,
                                ast.ClassDef)):
                    continue
                aug = n.ast.target if n.kind == 'stmt' and \
                    isinstance(n.ast, ast.AugAssign) else None
                for root in _node_exprs(n):
                    for x in walk(root):
                        if not isinstance(x, ast.Subscript):
                            continue
                        if isinstance(x.ctx, ast.Store) and x is not aug:
                            continue
                        c = P.canon(x, n.id)
                        if not isinstance(c, ast.Subscript):
                            continue
                        T = unparse(c.value)
                        if T not in tables:
                            continue
                        key = unparse(c.slice)
                        knames = [k for k in _names(c.slice) if k != 'self']
                        mg = _member_guards(P, n, key, knames)
                        if not mg:
                            continue
                        site = (n.id, T, key)
                        if site in seen_site:
                            continue
                        seen_site.add(site)
                        rep.saw(m)
                        other = sorted(t for t, v in mg.items()
                                       if v == 'present' and t != T)
                        good = mg.get(T) == 'present' or not other
                        if not good:
                            # the cell was stored on every way to the read
                            stores = [k.id for k in g.nodes
                                      if k.kind == 'stmt' and
                                      isinstance(k.ast, ast.Assign) and any(
                                          isinstance(t, ast.Subscript) and
                                          unparse(P.canon(t, k.id)) ==
                                          unparse(c) for t in k.ast.targets)
                                      and P.same_binding(knames, k.id, n.id)]
                            good = bool(stores) and n.id not in stores and \
                                must_pass(g, g.entry.id, n.id, stores)
                        if not good and mg.get(T) == 'absent':
                            continue       # R20.10 reports this one
                        rep.check(good, rid, m,
                                  '%s: `%s` is read where `%s in %s` holds'
                                  % (m.qual, short(x, 40), key, T),
                                  construct='cell %s[%s] under %s' % (
                                      T, key, '/'.join(other)),
                                  message='%s: `%s` is read / removed in a '
                                  'branch that is entered when `%s` is in %s, '
                                  'not when it is in %s (no test on %s, no '
                                  'store of the cell on the way): membership '
                                  'test on the wrong table - the branch is '
                                  'dead or fails with KeyError for a key that '
                                  'only the tested table has, and the cell is '
                                  'never drained for a key that only %s has'
                                  % (m.qual, short(x, 40), key,
                                     ' / '.join(other), T, T, T),
                                  loc=m.loc(x),
                                  history="requests with raptor_id '*' (or "
                                  "for a master which has not registered yet) "
                                  "are cached in %s[%s]; a master registers "
                                  "its queue: the relay branch asks the other "
                                  "table, is not entered, the cached requests "
                                  "are never forwarded, never fail, never "
                                  "complete" % (BACKLOG, key))


# ------------------------------------------------------------------------------
# R20.14  every backlog cell that exists when a queue registers is relayed:
#         the relay of one cell does not depend on a sibling cell
#
def _cells_read(P, e, nid, depth=0):
    """keys k (canonical text) of the backlog cells BACKLOG[k] /
    BACKLOG.pop(k, ..) / BACKLOG.get(k, ..) that the value e, read at node
    nid, is built from (locals with one reaching definition are followed)"""
    out = set()
    for x in ast.walk(e):
        if isinstance(x, ast.Subscript) and \
                unparse(P.canon(x.value, nid)) == BACKLOG:
            out.add(unparse(P.canon(x.slice, nid)))
        elif isinstance(x, ast.Call) and isinstance(x.func, ast.Attribute) \
                and x.func.attr in ('pop', 'get') and x.args and \
                unparse(P.canon(x.func.value, nid)) == BACKLOG:
            out.add(unparse(P.canon(x.args[0], nid)))
        elif isinstance(x, ast.Name) and isinstance(x.ctx, ast.Load) and \
                depth < 3 and x.id != 'self' and x.id not in P.f.params:
            ds = P.rdefs(x.id, nid)
            if len(ds) == 1 and ds[0][1] is not None and \
                    ds[0][0].kind == 'stmt':
                out |= _cells_read(P, ds[0][1], ds[0][0].id, depth + 1)
    return out


def _backlog_atom(P, node):
    """(key text, label under which the key is in the backlog) if the test
    node asks `key in BACKLOG` (negated, `not in`, `.keys()`, or held in a
    local with one reaching definition), else None"""
    a, at = node.ast, node.id
    if isinstance(a, ast.Name):
        ds = P.rdefs(a.id, node.id)
        if len(ds) == 1 and ds[0][1] is not None and ds[0][0].kind == 'stmt':
            a, at = ds[0][1], ds[0][0].id
    pos = 'T'
    while isinstance(a, ast.UnaryOp) and isinstance(a.op, ast.Not):
        a, pos = a.operand, ('F' if pos == 'T' else 'T')
    if not (isinstance(a, ast.Compare) and len(a.ops) == 1 and
            isinstance(a.ops[0], (ast.In, ast.NotIn))):
        return None
    c = P.canon(a, at)
    cont = c.comparators[0]
    if isinstance(cont, ast.Call) and isinstance(cont.func, ast.Attribute) \
            and cont.func.attr == 'keys' and not cont.args:
        cont = cont.func.value
    if unparse(cont) != BACKLOG:
        return None
    if isinstance(a.ops[0], ast.NotIn):
        pos = 'F' if pos == 'T' else 'T'
    return unparse(c.left), pos, at


def r20_14(prog, rep, rid='R20.14'):
    rep.rule(rid, 'AgentSchedulingComponent.control_cb: whichever of the '
             'backlog cells self._raptor_tasks[k] it relays to a registering '
             'queue exist, each existing one can be relayed - the relay of '
             'one cell is not shut off by the presence (or absence) of a '
             'sibling cell', minimum=1)
    cb = prog.method(SCH[0], SCH[1], 'control_cb')
    rep.saw(cb)
    P = _Paths(prog, cb)
    g = P.g
    sc = P.smap
    relays = {}         # node id -> keys relayed there
    first = {}          # key -> a relay call (for the location)
    for c in calls_in(cb.node):
        if not (isinstance(c.func, ast.Attribute) and c.func.attr == 'put'
                and c.args and id(c) in sc):
            continue
        n = sc[id(c)]
        if not unparse(P.canon(c.func.value, n.id)).startswith(QUEUES + '['):
            continue
        keys = set()
        for a in c.args:
            keys |= _cells_read(P, a, n.id)
        if keys:
            relays.setdefault(n.id, set()).update(keys)
            for k in keys:
                first.setdefault(k, c)
    keys = sorted(first)
    if not relays:
        raise AnalysisError('R20.14: no backlog relay found in %s' % cb.where)
    if len(keys) < 2 or len(keys) > 4:
        rep.ok(rid, cb, '%d backlog cell(s) relayed: no sibling cell to '
               'depend on' % len(keys), cb.loc())
        return
    atoms = {}
    for n in g.nodes:
        if n.kind == 'test' and n.ast is not None:
            hit = _backlog_atom(P, n)
            if hit is not None and hit[0] in keys:
                atoms[n.id] = hit
    held_at = {at: key for nid, (key, pos, at) in atoms.items() if at != nid}
    # what a statement does to the cells: removed / stored -> later tests of
    # that key are open again
    touch = {}
    for n in g.nodes:
        if n.kind != 'stmt' or n.ast is None or isinstance(
                n.ast, (ast.FunctionDef, ast.AsyncFunctionDef, ast.ClassDef)):
            continue
        ks = set()
        for kind, t, st in I.stores(n.ast):
            ct = P.canon(t, n.id)
            if isinstance(ct, ast.Subscript) and \
                    unparse(ct.value) == BACKLOG:
                ks.add(unparse(ct.slice))
            elif _is_prefix(BACKLOG, unparse(ct)):
                ks |= set(keys)
        for x in ast.walk(n.ast):
            if isinstance(x, ast.Call) and isinstance(x.func, ast.Attribute) \
                    and unparse(P.canon(x.func.value, n.id)) == BACKLOG and \
                    x.func.attr in ('pop', 'popitem', 'clear', 'update',
                                    'setdefault', '__delitem__',
                                    '__setitem__'):
                ks |= {unparse(P.canon(x.args[0], n.id))} if x.args and \
                    x.func.attr in ('pop', 'setdefault') else set(keys)
        if ks:
            touch[n.id] = frozenset(ks)
    for k in keys:
        others = [x for x in keys if x != k]
        for bits in range(2 ** len(others)):
            sigma = {k: True}
            for i, o in enumerate(others):
                sigma[o] = bool(bits >> i & 1)

            def transfer(node, edge, st, sigma=sigma):
                # open_: cells changed on the way (a test of them is open
                # again); fixed: locals holding a test result that was taken
                # while the cell was still as the queue registration found it
                open_, done, fixed = st
                if edge.label == 'exc':
                    return st
                hit = atoms.get(node.id)
                if hit is not None and edge.label in ('T', 'F'):
                    key, pos, at = hit
                    known = key not in open_ if at == node.id else at in fixed
                    if known and (edge.label == pos) != sigma[key]:
                        return None
                    return st
                if node.id in held_at:
                    fixed = fixed | {node.id} if held_at[node.id] not in open_ \
                        else fixed - {node.id}
                if node.id in relays:
                    done = done | frozenset(relays[node.id])
                if node.id in touch:
                    open_ = open_ | touch[node.id]
                return (open_, done, fixed)
            try:
                ex = Exploration(g, g.entry.id,
                                 (frozenset(), frozenset(), frozenset()),
                                 transfer, max_states=20000)
            except RuntimeError as e:
                raise AnalysisError('%s: %s' % (cb.where, e))
            rep.stat('paths_enumerated', ex.states)
            can = any(k in t.state[1] for t in ex.terminals)
            held = ', '.join('%s %s' % (o, 'present' if sigma[o] else
                                        'absent') for o in others)
            rep.check(can, rid, cb, 'the backlog cell [%s] can be relayed '
                      'when %s' % (k, held),
                      construct='relay %s | %s' % (k, held),
                      message='%s: when a queue registers while %s[%s] '
                      'exists and the sibling cell(s) are: %s, no way through '
                      'the function relays %s[%s] - its relay is shut off by '
                      'a test of another cell (elif / nesting / early exit '
                      'after the sibling relay); nothing relays the cell '
                      'later, the requests cached in it never run, never '
                      'fail, never complete' % (cb.qual, BACKLOG, k, held,
                                                BACKLOG, k),
                      loc=cb.loc(first[k]),
                      history="before master M registers, the scheduler "
                      "receives one request for M by name and one with "
                      "raptor_id '*' (both cached); M registers its queue: "
                      "only one of the two backlogs is forwarded, the other "
                      "request stays cached for ever")


def run(prog, rep, tier):
    rep.decided = ('DefaultWorker touches its occupancy lists only under '
        '_rlock; _alloc marks only cells it tested free, records exactly '
        'those in task[\'slots\'] and _dealloc frees the recorded cells of '
        'the same kind (the kind tested free, marked, recorded and freed '
        'agree; every kind handed out is marked); _alloc is all-or-nothing (no path ends with a false '
        'result or an explicit failure while a cell it marked is still busy); '
        'a method that enters a request into a table a callback thread looks '
        'up and also hands it on registers first (or both inside one critical '
        'section every lookup holds); worker function, timeout branch and dispatch error '
        'handler each put one well-formed result (non-zero code and '
        'exception on failure) on the queue whose single consumer calls '
        '_result_cb, which frees, copies the result fields and reports; a '
        'request that fails to start is freed and reported; Master._result_cb '
        'maps exit code 0 to DONE and everything else to FAILED and hands '
        'the tasks on exactly once; _submit_tasks routes by mode, for every '
        'mode the workers dispatch and every description _verify admits '
        '(three-valued over the attributes it leaves open), and _request_cb '
        'marks the executable requests raptor_seen; the agent '
        'scheduler forwards to raptor iff raptor_id and not worker and not '
        'raptor_seen and relays backlogs once; a store into a cell of the '
        'backlog of a master that has not registered keeps what earlier '
        'scheduling rounds cached (absent key, or accumulation); the '
        'in-process dispatchers '
        'save/restore stdio and environment around the call (the restore is '
        'passed on every way through the finally) and return '
        'code 0 / no exception exactly on the success path; the process '
        'dispatcher reads the exit code of its child after communicate() / '
        'wait() on every path; in Master._result_cb whether the thread parked '
        'by _run_task is woken (answer stored, event set) depends on tests of '
        'the table _task_service_data only; in the agent scheduler a cell of '
        'the backlog / queue table read under a membership test of its key is '
        'read under a test on that very table; in control_cb every backlog '
        'cell that exists when a queue registers can be relayed whatever the '
        'sibling cells are (paths enumerated per presence assignment).')
    rep.undecided = ('process-level races between the worker process and the '
        'timeout path (both may put a result); requests larger than the '
        'worker (asserts in _alloc); zmq delivery between master and '
        'workers; MPI worker (worker_mpi.py) is not anchored; a registration '
        'that is skipped on some path to the hand-on (only the order of the '
        'two is decided); pubsub publishes are not taken as a hand-on.')
    rep.assumptions = [
        'no monkey patching; subclasses outside the package do not override '
        'the anchors',
        'mp.Queue / zmq Putter/Getter deliver each item once',
        'environment and stdio are changed by the request only through '
        'os.environ / sys.stdout / sys.stderr of the dispatching process',
        'values are followed through constants, simple assignments and '
        'int()/str(); anything else is unknown and never reported',
        'subprocess.Popen.returncode is None until communicate() / wait() '
        'returned (standard library contract)',
        'a request description reaching the master satisfies '
        'TaskDescription._verify for its mode; its other attributes are '
        'arbitrary',
    ]
    r20_1(prog, rep, tier=tier)
    # (not through rep.attempt: when the writer cannot be read on the tree as
    # it is - marks moved into a fresh helper - this view abstains as a whole
    # and the normalised views, which inline the helper, decide)
    r20_2(prog, rep)
    r20_8(prog, rep)
    r20_3(prog, rep)
    r20_4(prog, rep)
    r20_5(prog, rep)
    r20_6(prog, rep)
    rep.attempt(r20_15, prog, rep)
    r20_11(prog, rep, tier=tier)
    r20_12(prog, rep)
    r20_9(prog, rep, tier=tier)
    r20_10(prog, rep)
    r20_13(prog, rep)
    r20_14(prog, rep)
    rep.attempt(r20_7, prog, rep)


# ------------------------------------------------------------------------------
# self-test variants
#
_D = 'raptor/worker_default.py'
_W = 'raptor/worker.py'
_M = 'raptor/master.py'
_B = 'agent/scheduler/base.py'

_ROUTE_OLD = ("            mode = task['description'].get('mode', TASK_EXECUTABLE)\n"
              "            if mode == TASK_EXECUTABLE:\n")
_HELPER_AT = "    def _submit_raptor_tasks(self, tasks) -> None:\n"

_ALIVE_OLD = "                if worker_proc.is_alive():\n"
_ALIVE_NEW = ("                hung = worker_proc.is_alive()\n"
              "                if hung:\n")
MUTATIONS = [
    dict(name='R20.1 _dealloc without the lock', rules=('R20.1',), edits=[
        (_D, "        self._prof.prof('unschedule_start', uid=task['uid'])\n\n        with self._rlock:\n",
             "        self._prof.prof('unschedule_start', uid=task['uid'])\n\n        if True:\n")]),
    dict(name='R20.1 free-count test hoisted out of the lock', rules=('R20.1',), edits=[
        (_D, "        self._prof.prof('schedule_try', uid=uid)\n\n        with self._rlock:\n",
             "        self._prof.prof('schedule_try', uid=uid)\n\n        if task.get('cores', 1) > self._resources['cores'].count(0):\n            return False\n\n        with self._rlock:\n")]),
    dict(name='R20.1 occupancy logged outside the lock through an alias', rules=('R20.1',), edits=[
        (_D, "        self._prof.prof('schedule_ok', uid=uid)\n\n        return True\n",
             "        self._prof.prof('schedule_ok', uid=uid)\n        cores = self._resources['cores']\n        self._log.debug('cores %s', cores)\n\n        return True\n")]),
    dict(name='R20.2 core marked without free test', rules=('R20.2',), edits=[
        (_D, "                    if not self._resources['cores'][n]:\n                        self._resources['cores'][n] = 1\n",
             "                    if not self._resources['cores'][0]:\n                        self._resources['cores'][n] = 1\n")],
         note='the test looks at cell 0, the mark goes to cell n'),
    dict(name='R20.2 gpu free test inverted', rules=('R20.2',), edits=[
        (_D, "                    if not self._resources['gpus'][n]:", "                    if self._resources['gpus'][n]:")]),
    dict(name='R20.2 gpu index not recorded', rules=('R20.2',), edits=[
        (_D, "                        self._resources['gpus'][n] = 1\n                        alloc_gpus.append(n)\n", "                        self._resources['gpus'][n] = 1\n")]),
    dict(name='R20.2 slots carry the lists under swapped keys', rules=('R20.2',), edits=[
        (_D, "            task['slots'] = [{'cores': alloc_cores,\n                              'gpus' : alloc_gpus}]",
             "            task['slots'] = [{'cores': alloc_gpus,\n                              'gpus' : alloc_cores}]")]),
    dict(name='R20.2 gpus freed only when the request had cores too', rules=('R20.2',), edits=[
        (_D, "            for n in resources['gpus']:\n                assert self._resources['gpus'][n]\n                self._resources['gpus'][n] = 0\n",
             "            if len(resources['cores']) > 1:\n                for n in resources['gpus']:\n                    assert self._resources['gpus'][n]\n                    self._resources['gpus'][n] = 0\n")]),
    dict(name='R20.2 gpu loop frees cores', rules=('R20.2',), edits=[
        (_D, "                assert self._resources['gpus'][n]\n                self._resources['gpus'][n] = 0\n",
             "                assert self._resources['gpus'][n]\n                self._resources['cores'][n] = 0\n")]),
    dict(name='R20.2 dealloc writes the busy value', rules=('R20.2',), edits=[
        (_D, "                assert self._resources['cores'][n]\n                self._resources['cores'][n] = 0\n",
             "                assert self._resources['cores'][n]\n                self._resources['cores'][n] = 1\n")]),
    dict(name='R20.3 timeout kills the process without a result', rules=('R20.3',), edits=[
        (_D, "                    self._log.debug('put 2 result: task %s', task['uid'])\n                    self._result_queue.put(res)\n",
             "                    self._log.debug('put 2 result: task %s', task['uid'])\n")]),
    dict(name='R20.3 timeout reported with exit code 0', rules=('R20.3',), edits=[
        (_D, "                    err = 'timeout (>%s)' % tout\n                    ret = 1\n", "                    err = 'timeout (>%s)' % tout\n                    ret = 0\n")]),
    dict(name='R20.3 dispatch error not reported', rules=('R20.3',), edits=[
        (_D, "            self._log.debug('put 3 result: task %s', task['uid'])\n\n            self._result_queue.put(res)\n",
             "            self._log.debug('put 3 result: task %s', task['uid'])\n")]),
    dict(name='R20.3 worker function reports only on success', rules=('R20.3',), edits=[
        (_D, "            except Exception as e:\n                exc = [repr(e), '\\n'.join(ru.get_exception_trace())]\n\n            finally:",
             "            except Exception as e:\n                exc = [repr(e), '\\n'.join(ru.get_exception_trace())]\n                return\n\n            finally:")]),
    dict(name='R20.3 worker function starts from exit code 0', rules=('R20.3',), edits=[
        (_D, "            err = None\n            ret = 1\n            val = None\n            exc = [None, None]\n            try:",
             "            err = None\n            ret = 0\n            val = None\n            exc = [None, None]\n            try:")]),
    dict(name='R20.3 result item without the value slot', rules=('R20.3',), edits=[
        (_D, "            res = [task, out, err, ret, val, exc]\n\n            with res_lock:", "            res = [task, out, err, ret, exc]\n\n            with res_lock:")]),
    dict(name='R20.3 result reported before the cores are freed', rules=('R20.3',), edits=[
        (_D, "        # free resources again for the task\n        self._dealloc(task)\n\n        task['stdout']           = out\n", "        task['stdout']           = out\n"),
        (_D, "        self._res_put.put(task)\n        self._prof.prof('req_stop', uid=task['uid'], msg=self._uid)\n",
             "        self._res_put.put(task)\n        self._dealloc(task)\n        self._prof.prof('req_stop', uid=task['uid'], msg=self._uid)\n")]),
    dict(name='R20.3 stdout and stderr swapped in the report', rules=('R20.3',), edits=[
        (_D, "        task['stdout']           = out\n        task['stderr']           = err\n", "        task['stdout']           = err\n        task['stderr']           = out\n")]),
    dict(name='R20.3 exit code not copied to the task', rules=('R20.3',), edits=[
        (_D, "        task['exit_code']        = ret\n", "")]),
    dict(name='R20.3 failed start is not freed', rules=('R20.3',), edits=[
        (_D, "                # free resources again for failed task\n                self._dealloc(task)\n\n", "")]),
    dict(name='R20.3 failed start is only logged', rules=('R20.3',), edits=[
        (_D, "                task['exception_detail'] = '\\n'.join(ru.get_exception_trace())\n\n                self._res_put.put(task)\n",
             "                task['exception_detail'] = '\\n'.join(ru.get_exception_trace())\n")]),
    dict(name='R20.3 watcher drops results while debugging is off', rules=('R20.3',), edits=[
        (_D, "                    self._log.debug('got result: %s', res)\n                    self._result_cb(res)\n",
             "                    self._log.debug('got result: %s', res)\n                    if self._pool:\n                        self._result_cb(res)\n")]),
    dict(name='R20.4 exit code test inverted', rules=('R20.4',), edits=[
        (_M, "                if int(ret) == 0: task['target_state'] = rps.DONE", "                if int(ret) != 0: task['target_state'] = rps.DONE")]),
    dict(name='R20.4 missing exit code counts as success', rules=('R20.4',), edits=[
        (_M, "                if ret is None:\n                    ret = -1\n", "                if ret is None:\n                    ret = 0\n")]),
    dict(name='R20.4 truthiness instead of == 0', rules=('R20.4',), edits=[
        (_M, "                if int(ret) == 0: task['target_state'] = rps.DONE", "                if int(ret)     : task['target_state'] = rps.DONE")]),
    dict(name='R20.4 failing result_cb loses the tasks', rules=('R20.4',), edits=[
        (_M, "        except:\n            self._log.exception('result callback failed')\n\n        self.advance(tasks, rps.AGENT_STAGING_OUTPUT_PENDING,",
             "        except:\n            self._log.exception('result callback failed')\n            return\n\n        self.advance(tasks, rps.AGENT_STAGING_OUTPUT_PENDING,")]),
    dict(name='R20.4 results not pushed to output staging', rules=('R20.4',), edits=[
        (_M, "        self.advance(tasks, rps.AGENT_STAGING_OUTPUT_PENDING,\n                            publish=True, push=True)",
             "        self.advance(tasks, rps.AGENT_STAGING_OUTPUT_PENDING,\n                            publish=True, push=False)")]),
    dict(name='R20.5 mode test inverted in _submit_tasks', rules=('R20.5',), edits=[
        (_M, "            if mode == TASK_EXECUTABLE:\n                executable_tasks.append(task)", "            if mode != TASK_EXECUTABLE:\n                executable_tasks.append(task)")]),
    dict(name='R20.5 route lists swapped at the calls', rules=('R20.5',), edits=[
        (_M, "        self._submit_executable_tasks(executable_tasks)\n        self._submit_raptor_tasks(raptor_tasks)",
             "        self._submit_executable_tasks(raptor_tasks)\n        self._submit_raptor_tasks(executable_tasks)")]),
    dict(name='R20.5 raptor tasks only submitted without executables', rules=('R20.5',), edits=[
        (_M, "        self._submit_executable_tasks(executable_tasks)\n        self._submit_raptor_tasks(raptor_tasks)",
             "        if executable_tasks:\n            self._submit_executable_tasks(executable_tasks)\n        else:\n            self._submit_raptor_tasks(raptor_tasks)")]),
    dict(name='R20.5 raptor requests advanced but never queued', rules=('R20.5',), edits=[
        (_M, "                                publish=True, push=False)\n\n            self._req_put.put(tasks)\n", "                                publish=True, push=False)\n")]),
    dict(name='R20.5 scheduler ignores raptor_seen', rules=('R20.5',), edits=[
        (_B, "                        if task.get('raptor_seen'):\n                            # raptor has handled this one - we can execute it\n                            self._set_tuple_size(task)\n                            to_schedule[priority].append(task)\n\n                        else:\n                            to_raptor[raptor_id].append(task)\n",
             "                        to_raptor[raptor_id].append(task)\n")]),
    dict(name='R20.5 scheduler forwards raptor workers to raptor', rules=('R20.5',), edits=[
        (_B, "                    if raptor_id and mode != RAPTOR_WORKER:", "                    if raptor_id:")]),
    dict(name='R20.5 worker test inverted in the scheduler', rules=('R20.5',), edits=[
        (_B, "                    if raptor_id and mode != RAPTOR_WORKER:", "                    if raptor_id and mode == RAPTOR_WORKER:")]),
    dict(name='R20.5 forwarded task is also scheduled locally', rules=('R20.5',), edits=[
        (_B, "                            to_raptor[raptor_id].append(task)\n", "                            to_raptor[raptor_id].append(task)\n                            to_schedule[priority].append(task)\n")]),
    dict(name='R20.5 wildcard backlog relayed without removal', rules=('R20.5',), edits=[
        (_B, "                    tasks = self._raptor_tasks['*']\n                    del self._raptor_tasks['*']\n", "                    tasks = self._raptor_tasks['*']\n")]),
    dict(name='R20.6 eval: stdout restored after the try, not in finally', rules=('R20.6',), edits=[
        (_W, "            err = strerr.getvalue() + ('\\neval failed: %s' % e)\n            exc = (repr(e), '\\n'.join(ru.get_exception_trace()))\n            ret = 1\n\n        finally:\n            # restore stdio\n            sys.stdout = bak_stdout\n            sys.stderr = bak_stderr\n\n            os.environ = old_env\n",
             "            err = strerr.getvalue() + ('\\neval failed: %s' % e)\n            exc = (repr(e), '\\n'.join(ru.get_exception_trace()))\n            ret = 1\n\n        finally:\n            # restore stdio\n            sys.stderr = bak_stderr\n\n            os.environ = old_env\n\n        sys.stdout = bak_stdout\n")]),
    dict(name='R20.6 exec: stderr restored from the stdout copy', rules=('R20.6',), edits=[
        (_W, "            err = strerr.getvalue() + ('\\nexec failed: %s' % e)\n            exc = (repr(e), '\\n'.join(ru.get_exception_trace()))\n            ret = 1\n\n        finally:\n            # restore stdio\n            sys.stdout = bak_stdout\n            sys.stderr = bak_stderr\n",
             "            err = strerr.getvalue() + ('\\nexec failed: %s' % e)\n            exc = (repr(e), '\\n'.join(ru.get_exception_trace()))\n            ret = 1\n\n        finally:\n            # restore stdio\n            sys.stdout = bak_stdout\n            sys.stderr = strerr\n")]),
    dict(name='R20.6 exec: environment not restored', rules=('R20.6',), edits=[
        (_W, "            err = strerr.getvalue() + ('\\nexec failed: %s' % e)\n            exc = (repr(e), '\\n'.join(ru.get_exception_trace()))\n            ret = 1\n\n        finally:\n            # restore stdio\n            sys.stdout = bak_stdout\n            sys.stderr = bak_stderr\n\n            os.environ = old_env\n",
             "            err = strerr.getvalue() + ('\\nexec failed: %s' % e)\n            exc = (repr(e), '\\n'.join(ru.get_exception_trace()))\n            ret = 1\n\n        finally:\n            # restore stdio\n            sys.stdout = bak_stdout\n            sys.stderr = bak_stderr\n")]),
    dict(name='R20.6 eval: environment copied after the task settings were applied', rules=('R20.6',), edits=[
        (_W, "        strout = None\n        strerr = None\n\n        old_env = os.environ.copy()\n\n        for k, v in task['description'].get('environment', {}).items():\n            os.environ[k] = str(v)\n\n        try:\n            # redirect stdio to capture them during execution\n            sys.stdout = strout = io.StringIO()\n            sys.stderr = strerr = io.StringIO()\n\n            self._log.debug('eval [%s] [%s]', code, task['uid'])",
             "        strout = None\n        strerr = None\n\n        for k, v in task['description'].get('environment', {}).items():\n            os.environ[k] = str(v)\n\n        old_env = os.environ.copy()\n\n        try:\n            # redirect stdio to capture them during execution\n            sys.stdout = strout = io.StringIO()\n            sys.stderr = strerr = io.StringIO()\n\n            self._log.debug('eval [%s] [%s]', code, task['uid'])")]),
    dict(name='R20.6 seed C20-b: eval restores the environment with update() only', rules=('R20.6',), edits=[
        (_W, "            err = strerr.getvalue() + ('\\neval failed: %s' % e)\n            exc = (repr(e), '\\n'.join(ru.get_exception_trace()))\n            ret = 1\n\n        finally:\n            # restore stdio\n            sys.stdout = bak_stdout\n            sys.stderr = bak_stderr\n\n            os.environ = old_env\n",
             "            err = strerr.getvalue() + ('\\neval failed: %s' % e)\n            exc = (repr(e), '\\n'.join(ru.get_exception_trace()))\n            ret = 1\n\n        finally:\n            # restore stdio\n            sys.stdout = bak_stdout\n            sys.stderr = bak_stderr\n\n            os.environ.update(old_env)\n")]),
    dict(name='R20.6 exec writes the saved keys back in a loop', rules=('R20.6',), edits=[
        (_W, "            err = strerr.getvalue() + ('\\nexec failed: %s' % e)\n            exc = (repr(e), '\\n'.join(ru.get_exception_trace()))\n            ret = 1\n\n        finally:\n            # restore stdio\n            sys.stdout = bak_stdout\n            sys.stderr = bak_stderr\n\n            os.environ = old_env\n",
             "            err = strerr.getvalue() + ('\\nexec failed: %s' % e)\n            exc = (repr(e), '\\n'.join(ru.get_exception_trace()))\n            ret = 1\n\n        finally:\n            # restore stdio\n            sys.stdout = bak_stdout\n            sys.stderr = bak_stderr\n\n            for k, v in old_env.items():\n                os.environ[k] = v\n")]),
    dict(name='R20.6 exec clears the environment only when output was captured', rules=('R20.6',), edits=[
        (_W, "            err = strerr.getvalue() + ('\\nexec failed: %s' % e)\n            exc = (repr(e), '\\n'.join(ru.get_exception_trace()))\n            ret = 1\n\n        finally:\n            # restore stdio\n            sys.stdout = bak_stdout\n            sys.stderr = bak_stderr\n\n            os.environ = old_env\n",
             "            err = strerr.getvalue() + ('\\nexec failed: %s' % e)\n            exc = (repr(e), '\\n'.join(ru.get_exception_trace()))\n            ret = 1\n\n        finally:\n            # restore stdio\n            sys.stdout = bak_stdout\n            sys.stderr = bak_stderr\n\n            if strout:\n                os.environ.clear()\n            os.environ.update(old_env)\n")]),
    dict(name='R20.6 eval saves an alias of os.environ, not a copy', rules=('R20.6',), edits=[
        (_W, "        strout = None\n        strerr = None\n\n        old_env = os.environ.copy()\n\n        for k, v in task['description'].get('environment', {}).items():\n            os.environ[k] = str(v)\n\n        try:\n            # redirect stdio to capture them during execution\n            sys.stdout = strout = io.StringIO()\n            sys.stderr = strerr = io.StringIO()\n\n            self._log.debug('eval [%s] [%s]', code, task['uid'])",
             "        strout = None\n        strerr = None\n\n        old_env = os.environ\n\n        for k, v in task['description'].get('environment', {}).items():\n            os.environ[k] = str(v)\n\n        try:\n            # redirect stdio to capture them during execution\n            sys.stdout = strout = io.StringIO()\n            sys.stderr = strerr = io.StringIO()\n\n            self._log.debug('eval [%s] [%s]', code, task['uid'])")]),
    dict(name='R20.6 func: failure reported with exit code 0', rules=('R20.6',), edits=[
        (_W, "            err = strerr.getvalue() + ('\\ncall failed: %s' % e)\n            exc = (repr(e), '\\n'.join(ru.get_exception_trace()))\n            ret = 1\n",
             "            err = strerr.getvalue() + ('\\ncall failed: %s' % e)\n            exc = (repr(e), '\\n'.join(ru.get_exception_trace()))\n            ret = 0\n")]),
    dict(name='R20.6 eval: exception dropped in the handler', rules=('R20.6',), edits=[
        (_W, "            err = strerr.getvalue() + ('\\neval failed: %s' % e)\n            exc = (repr(e), '\\n'.join(ru.get_exception_trace()))\n",
             "            err = strerr.getvalue() + ('\\neval failed: %s' % e)\n            exc = (None, None)\n")]),
    dict(name='R20.6 exec: success reported with exit code 1', rules=('R20.6',), edits=[
        (_W, "            val = loc['result']\n            out = strout.getvalue()\n            err = strerr.getvalue()\n            exc = (None, None)\n            ret = 0\n",
             "            val = loc['result']\n            out = strout.getvalue()\n            err = strerr.getvalue()\n            exc = (None, None)\n            ret = 1\n")]),
    dict(name='R20.6 shell: handler keeps exit code 0', rules=('R20.6',), edits=[
        (_W, "            err = 'shell failed: %s' % e\n            exc = (repr(e), '\\n'.join(ru.get_exception_trace()))\n            ret = 1\n",
             "            err = 'shell failed: %s' % e\n            exc = (repr(e), '\\n'.join(ru.get_exception_trace()))\n            ret = 0\n")]),
    dict(name='R20.6 func: deserialization failure returns code 0', rules=('R20.6',), edits=[
        (_W, "                err = f'call failed: {e}'\n                ret = 1\n", "                err = f'call failed: {e}'\n                ret = 0\n")]),
    dict(name='R20.7 seed C20-d: requests that name an executable are routed to the executor path', rules=('R20.7',), edits=[
        (_M, _ROUTE_OLD,
             "            td   = task['description']\n            mode = td.get('mode', TASK_EXECUTABLE)\n            if mode == TASK_EXECUTABLE or td.get('executable'):\n")],
         note='TASK_PROC descriptions must carry an executable: they never reach a worker'),
    dict(name='R20.7 seed C20-d spelled through a helper predicate', rules=('R20.7',), edits=[
        (_M, _ROUTE_OLD,
             "            mode = task['description'].get('mode', TASK_EXECUTABLE)\n            if self._runs_executable(task['description']):\n"),
        (_M, _HELPER_AT,
             "    def _runs_executable(self, td):\n\n        if td.get('mode', TASK_EXECUTABLE) == TASK_EXECUTABLE:\n            return True\n        return bool(td.get('executable'))\n\n\n" + _HELPER_AT)]),
    dict(name='R20.7 process requests listed with the executables', rules=('R20.7',), edits=[
        (_M, "from .. import Session, Task, TaskDescription, TASK_EXECUTABLE\n",
             "from .. import Session, Task, TaskDescription, TASK_EXECUTABLE\nfrom ..task_description import TASK_PROC\n"),
        (_M, _ROUTE_OLD,
             "            mode = task['description'].get('mode', TASK_EXECUTABLE)\n            if mode in [TASK_EXECUTABLE, TASK_PROC]:\n")]),
    dict(name='R20.7 worker route chosen by the payload attributes instead of the mode', rules=('R20.7',), edits=[
        (_M, _ROUTE_OLD,
             "            td   = task['description']\n            mode = td.get('mode', TASK_EXECUTABLE)\n            if not (td.get('function') or td.get('code') or td.get('command')):\n")],
         note='a process request has none of the three: it goes to the executor path'),
    dict(name='R20.7 eval/exec requests with a named environment sent to the executor path', rules=('R20.7',), edits=[
        (_M, _ROUTE_OLD,
             "            td   = task['description']\n            mode = td.get('mode', TASK_EXECUTABLE)\n            if mode == TASK_EXECUTABLE or td.get('named_env'):\n")],
         note='_verify forbids named_env for function / method requests only'),
    dict(name='R20.7 executable mode recognised by a prefix that task.exec shares', rules=('R20.7',), edits=[
        (_M, _ROUTE_OLD,
             "            mode = task['description'].get('mode', TASK_EXECUTABLE)\n            if mode.startswith('task.exe'):\n")],
         note='right for executable and function requests, wrong for exec requests'),
    dict(name='R20.7 multi-rank requests sent to the executor path whatever their mode', rules=('R20.7',), edits=[
        (_M, _ROUTE_OLD,
             "            td   = task['description']\n            mode = td.get('mode', TASK_EXECUTABLE)\n            if mode == TASK_EXECUTABLE or td.get('ranks', 1) > 1:\n")]),
    dict(name='R20.7 raptor_seen marking inverted in _request_cb', rules=('R20.7',), edits=[
        (_M, "            if task['description']['mode'] == TASK_EXECUTABLE:\n                task['raptor_seen'] = True\n",
             "            if task['description']['mode'] != TASK_EXECUTABLE:\n                task['raptor_seen'] = True\n")]),
    dict(name='R20.7 only executable requests with arguments are marked raptor_seen', rules=('R20.7',), edits=[
        (_M, "            if task['description']['mode'] == TASK_EXECUTABLE:\n                task['raptor_seen'] = True\n",
             "            if task['description']['mode'] == TASK_EXECUTABLE and \\\n               task['description'].get('arguments'):\n                task['raptor_seen'] = True\n")]),
]

SILENT = [
    dict(name='_dealloc frees gpus before cores', edits=[
        (_D, "            for n in resources['cores']:\n                assert self._resources['cores'][n]\n                self._resources['cores'][n] = 0\n\n            for n in resources['gpus']:\n                assert self._resources['gpus'][n]\n                self._resources['gpus'][n] = 0\n",
             "            for n in resources['gpus']:\n                assert self._resources['gpus'][n]\n                self._resources['gpus'][n] = 0\n\n            for n in resources['cores']:\n                assert self._resources['cores'][n]\n                self._resources['cores'][n] = 0\n")]),
    dict(name='free test written as == 0', edits=[
        (_D, "                    if not self._resources['cores'][n]:", "                    if self._resources['cores'][n] == 0:")]),
    dict(name='free test in early-continue form', edits=[
        (_D, "                    if not self._resources['gpus'][n]:\n                        self._resources['gpus'][n] = 1\n                        alloc_gpus.append(n)\n                        if len(alloc_gpus) == gpus:\n                            break\n",
             "                    if self._resources['gpus'][n]:\n                        continue\n                    self._resources['gpus'][n] = 1\n                    alloc_gpus.append(n)\n                    if len(alloc_gpus) == gpus:\n                        break\n")]),
    dict(name='slot dict with the keys in another order', edits=[
        (_D, "            task['slots'] = [{'cores': alloc_cores,\n                              'gpus' : alloc_gpus}]",
             "            task['slots'] = [{'gpus' : alloc_gpus,\n                              'cores': alloc_cores}]")]),
    dict(name='_dealloc reads the slot without a local', edits=[
        (_D, "            resources = task['slots'][0]\n\n            for n in resources['cores']:", "            resources = task['slots'][0]\n\n            for n in task['slots'][0]['cores']:")]),
    dict(name='is_alive() result held in a local before the timeout test', edits=[
        (_D, _ALIVE_OLD, _ALIVE_NEW)]),
    dict(name='result fields copied in another order', edits=[
        (_D, "        task['stdout']           = out\n        task['stderr']           = err\n        task['exit_code']        = ret\n",
             "        task['exit_code']        = ret\n        task['stderr']           = err\n        task['stdout']           = out\n")]),
    dict(name='timeout result built inline', edits=[
        (_D, "                    res = [task, str(out), str(err), int(ret), val, exc]\n                    self._log.debug('put 2 result: task %s', task['uid'])\n                    self._result_queue.put(res)\n",
             "                    self._log.debug('put 2 result: task %s', task['uid'])\n                    self._result_queue.put([task, str(out), str(err), int(ret), val, exc])\n")]),
    dict(name='exit code table with the failure branch first', edits=[
        (_M, "                if int(ret) == 0: task['target_state'] = rps.DONE\n                else            : task['target_state'] = rps.FAILED\n",
             "                if int(ret) != 0:\n                    task['target_state'] = rps.FAILED\n                else:\n                    task['target_state'] = rps.DONE\n")]),
    dict(name='exit code table as conditional expression', edits=[
        (_M, "                ret = task.get('exit_code')\n                if ret is None:\n                    ret = -1\n\n                if int(ret) == 0: task['target_state'] = rps.DONE\n                else            : task['target_state'] = rps.FAILED\n",
             "                ret = task.get('exit_code')\n                ok  = ret is not None and int(ret) == 0\n                task['target_state'] = rps.DONE if ok else rps.FAILED\n")]),
    dict(name='routing with the raptor branch first', edits=[
        (_M, "            if mode == TASK_EXECUTABLE:\n                executable_tasks.append(task)\n            else:\n                raptor_tasks.append(task)\n",
             "            if mode != TASK_EXECUTABLE:\n                raptor_tasks.append(task)\n            else:\n                executable_tasks.append(task)\n")]),
    dict(name='scheduler raptor test as nested ifs with early continue', edits=[
        (_B, "                    if raptor_id and mode != RAPTOR_WORKER:\n\n                        if task.get('raptor_seen'):\n                            # raptor has handled this one - we can execute it\n                            self._set_tuple_size(task)\n                            to_schedule[priority].append(task)\n\n                        else:\n                            to_raptor[raptor_id].append(task)\n\n                    else:\n                        # no raptor - schedule it here\n                        self._set_tuple_size(task)\n                        to_schedule[priority].append(task)\n",
             "                    if raptor_id:\n                        if not mode == RAPTOR_WORKER:\n                            if not task.get('raptor_seen'):\n                                to_raptor[raptor_id].append(task)\n                                continue\n\n                    self._set_tuple_size(task)\n                    to_schedule[priority].append(task)\n")]),
    dict(name='eval: stdio redirected before the try', edits=[
        (_W, "        try:\n            # redirect stdio to capture them during execution\n            sys.stdout = strout = io.StringIO()\n            sys.stderr = strerr = io.StringIO()\n\n            self._log.debug('eval [%s] [%s]', code, task['uid'])",
             "        sys.stdout = strout = io.StringIO()\n        sys.stderr = strerr = io.StringIO()\n        try:\n            self._log.debug('eval [%s] [%s]', code, task['uid'])")]),
    dict(name='exec: environment restored in place', edits=[
        (_W, "            err = strerr.getvalue() + ('\\nexec failed: %s' % e)\n            exc = (repr(e), '\\n'.join(ru.get_exception_trace()))\n            ret = 1\n\n        finally:\n            # restore stdio\n            sys.stdout = bak_stdout\n            sys.stderr = bak_stderr\n\n            os.environ = old_env\n",
             "            err = strerr.getvalue() + ('\\nexec failed: %s' % e)\n            exc = (repr(e), '\\n'.join(ru.get_exception_trace()))\n            ret = 1\n\n        finally:\n            # restore stdio\n            sys.stderr = bak_stderr\n            sys.stdout = bak_stdout\n\n            os.environ.clear()\n            os.environ.update(old_env)\n")]),
    dict(name='eval: environment saved with dict(os.environ), restored by clear + key loop', edits=[
        (_W, "        strout = None\n        strerr = None\n\n        old_env = os.environ.copy()\n\n        for k, v in task['description'].get('environment', {}).items():\n            os.environ[k] = str(v)\n\n        try:\n            # redirect stdio to capture them during execution\n            sys.stdout = strout = io.StringIO()\n            sys.stderr = strerr = io.StringIO()\n\n            self._log.debug('eval [%s] [%s]', code, task['uid'])",
             "        strout = None\n        strerr = None\n\n        old_env = dict(os.environ)\n\n        for k, v in task['description'].get('environment', {}).items():\n            os.environ[k] = str(v)\n\n        try:\n            # redirect stdio to capture them during execution\n            sys.stdout = strout = io.StringIO()\n            sys.stderr = strerr = io.StringIO()\n\n            self._log.debug('eval [%s] [%s]', code, task['uid'])"),
        (_W, "            err = strerr.getvalue() + ('\\neval failed: %s' % e)\n            exc = (repr(e), '\\n'.join(ru.get_exception_trace()))\n            ret = 1\n\n        finally:\n            # restore stdio\n            sys.stdout = bak_stdout\n            sys.stderr = bak_stderr\n\n            os.environ = old_env\n",
             "            err = strerr.getvalue() + ('\\neval failed: %s' % e)\n            exc = (repr(e), '\\n'.join(ru.get_exception_trace()))\n            ret = 1\n\n        finally:\n            # restore stdio\n            sys.stdout = bak_stdout\n            sys.stderr = bak_stderr\n\n            os.environ.clear()\n            for k, v in old_env.items():\n                os.environ[k] = v\n")]),
    dict(name='eval: success values assigned as one tuple', edits=[
        (_W, "            val = eval(code)\n            self._prof.prof('rank_stop', uid=uid)\n            out = strout.getvalue()\n            err = strerr.getvalue()\n            exc = (None, None)\n            ret = 0\n",
             "            val = eval(code)\n            self._prof.prof('rank_stop', uid=uid)\n            out = strout.getvalue()\n            err = strerr.getvalue()\n            ret, exc = 0, (None, None)\n")]),
    dict(name='routing test hoisted into renamed locals', edits=[
        (_M, _ROUTE_OLD,
             "            td     = task['description']\n            kind   = td.get('mode', TASK_EXECUTABLE)\n            to_exe = kind == TASK_EXECUTABLE\n            if to_exe:\n")]),
    dict(name='routing in early-continue form after the sandbox completion', edits=[
        (_M, _ROUTE_OLD + "                executable_tasks.append(task)\n            else:\n                raptor_tasks.append(task)\n\n            # tasks submitted in raptor will miss sandbox completion as\n            # performed by the tmgr.scheduler, so we add it here\n            dummy = {'pilot_sandbox': self._psbox}\n            sbox  = self._session._get_task_sandbox(task, dummy)\n            task['task_sandbox']      = str(sbox)\n            task['task_sandbox_path'] = ru.Url(sbox).path\n",
             "            dummy = {'pilot_sandbox': self._psbox}\n            sbox  = self._session._get_task_sandbox(task, dummy)\n            task['task_sandbox']      = str(sbox)\n            task['task_sandbox_path'] = ru.Url(sbox).path\n\n            mode = task['description'].get('mode', TASK_EXECUTABLE)\n            if mode != TASK_EXECUTABLE:\n                raptor_tasks.append(task)\n                continue\n\n            executable_tasks.append(task)\n")]),
    dict(name='routing predicate extracted into a helper method', edits=[
        (_M, _ROUTE_OLD,
             "            if self._is_executable(task):\n"),
        (_M, _HELPER_AT,
             "    def _is_executable(self, task):\n\n        mode = task['description'].get('mode', TASK_EXECUTABLE)\n        return mode == TASK_EXECUTABLE\n\n\n" + _HELPER_AT)]),
    dict(name='route lists built by two comprehensions', edits=[
        (_M, "        raptor_tasks     = list()\n        executable_tasks = list()\n",
             "        tasks            = ru.as_list(tasks)\n        executable_tasks = [t for t in tasks if t['description'].get('mode', TASK_EXECUTABLE) == TASK_EXECUTABLE]\n        raptor_tasks     = [t for t in tasks if t['description'].get('mode', TASK_EXECUTABLE) != TASK_EXECUTABLE]\n"),
        (_M, _ROUTE_OLD + "                executable_tasks.append(task)\n            else:\n                raptor_tasks.append(task)\n", "")]),
    dict(name='routing test spelled as membership', edits=[
        (_M, _ROUTE_OLD,
             "            mode = task['description'].get('mode', TASK_EXECUTABLE)\n            if mode in (TASK_EXECUTABLE, ):\n")]),
    dict(name='an attribute of the description is read next to the routing without deciding it', edits=[
        (_M, _ROUTE_OLD,
             "            if task['description'].get('named_env'):\n                self._log.debug('named env: %s', task['uid'])\n\n" + _ROUTE_OLD)]),
    dict(name='raptor_seen marking with the description hoisted', edits=[
        (_M, "            if task['description']['mode'] == TASK_EXECUTABLE:\n                task['raptor_seen'] = True\n",
             "            td = task['description']\n            if TASK_EXECUTABLE == td['mode']:\n                task['raptor_seen'] = True\n")]),
    dict(name='raptor_seen marking extracted into a helper method', edits=[
        (_M, "            if task['description']['mode'] == TASK_EXECUTABLE:\n                task['raptor_seen'] = True\n",
             "            self._mark_seen(task)\n"),
        (_M, _HELPER_AT,
             "    def _mark_seen(self, task):\n\n        if task['description']['mode'] != TASK_EXECUTABLE:\n            return\n        task['raptor_seen'] = True\n\n\n" + _HELPER_AT)]),
]

# --- round 3 (all-or-nothing allocation, register before hand-on, routing through a table)
_FIT = ("            if cores > self._resources['cores'].count(0): return False\n"
        "            if gpus  > self._resources['gpus' ].count(0): return False\n")
_LISTS = ("            alloc_cores = list()\n"
          "            alloc_gpus  = list()\n")
_CORE_LOOP = ("            if cores:\n"
              "                for n in range(self._n_cores):\n"
              "                    if not self._resources['cores'][n]:\n"
              "                        self._resources['cores'][n] = 1\n"
              "                        alloc_cores.append(n)\n"
              "                        if len(alloc_cores) == cores:\n"
              "                            break\n")
_GPU_LOOP = ("            if gpus:\n"
             "                for n in range(self._n_gpus):\n"
             "                    if not self._resources['gpus'][n]:\n"
             "                        self._resources['gpus'][n] = 1\n"
             "                        alloc_gpus.append(n)\n"
             "                        if len(alloc_gpus) == gpus:\n"
             "                            break\n")
_MARKING = _FIT + "\n" + _LISTS + "\n" + _CORE_LOOP + "\n" + _GPU_LOOP
_ALLOC_AT = "    def _alloc(self, task):\n"
_SLOTS = ("            task['slots'] = [{'cores': alloc_cores,\n"
          "                              'gpus' : alloc_gpus}]")
_CLAIM_CHECKED = (
    "    def _claim(self, kind, count):\n\n"
    "        pool = self._resources[kind]\n\n"
    "        if count > pool.count(0):\n"
    "            return None\n\n"
    "        claimed = list()\n"
    "        for n, busy in enumerate(pool):\n\n"
    "            if len(claimed) == count:\n"
    "                break\n\n"
    "            if not busy:\n"
    "                pool[n] = 1\n"
    "                claimed.append(n)\n\n"
    "        return claimed\n\n\n")
_CLAIM_PLAIN = (
    "    def _claim(self, kind, count):\n\n"
    "        pool    = self._resources[kind]\n"
    "        claimed = list()\n"
    "        for n, busy in enumerate(pool):\n\n"
    "            if len(claimed) == count:\n"
    "                break\n\n"
    "            if not busy:\n"
    "                pool[n] = 1\n"
    "                claimed.append(n)\n\n"
    "        return claimed\n\n\n")
_REG     = "        self._task_service_data[tid] = [event, task]\n"
_SUBMIT  = "        self.submit_tasks([task])\n"
_RUN_AT  = "    def _run_task(self, td):\n"
_TRACK   = ("    def _track(self, tid, event, task):\n\n"
            "        self._task_service_data[tid] = [event, task]\n\n\n")
_SPAWN   = ("                with self._plock:\n\n"
            "                    # we need to include `proc.start()` in the lock, as\n"
            "                    # otherwise we may end up getting the `self._result_cb`\n"
            "                    # before the pid could be registered in `self._pool`.\n"
            "                    proc.start()\n"
            "                    self._pool[proc.pid] = proc\n")
_ROUTE_IF = ("            if mode == TASK_EXECUTABLE:\n"
             "                executable_tasks.append(task)\n"
             "            else:\n"
             "                raptor_tasks.append(task)\n")
_ROUTE_LISTS = ("        raptor_tasks     = list()\n"
                "        executable_tasks = list()\n")
_ROUTE_CALLS = ("        self._submit_executable_tasks(executable_tasks)\n"
                "        self._submit_raptor_tasks(raptor_tasks)")

MUTATIONS += [
    dict(name='R20.8 seed C20-e: marking folded into _claim(kind, count), each fit test right before its kind is marked', rules=('R20.8',), edits=[
        (_D, _MARKING,
             "            alloc_cores = self._claim('cores', cores)\n"
             "            if alloc_cores is None: return False\n\n"
             "            alloc_gpus  = self._claim('gpus', gpus)\n"
             "            if alloc_gpus  is None: return False\n"),
        (_D, _ALLOC_AT, _CLAIM_CHECKED + _ALLOC_AT)],
         note='cores fit, gpus do not: False is returned with the cores marked'),
    dict(name='R20.8 seed C20-a: each fit test moved in front of its own marking loop', rules=('R20.8',), edits=[
        (_D, _FIT + "\n", ""),
        (_D, "            if cores:\n                for n in range(self._n_cores):\n",
             "            if cores:\n                if cores > self._resources['cores'].count(0): return False\n                for n in range(self._n_cores):\n"),
        (_D, "            if gpus:\n                for n in range(self._n_gpus):\n",
             "            if gpus:\n                if gpus > self._resources['gpus'].count(0): return False\n                for n in range(self._n_gpus):\n")]),
    dict(name='R20.8 gpu fit test only after the cores were marked', rules=('R20.8',), edits=[
        (_D, "            if gpus  > self._resources['gpus' ].count(0): return False\n", ""),
        (_D, "            if gpus:\n                for n in range(self._n_gpus):\n",
             "            short = gpus > self._resources['gpus'].count(0)\n            if short:\n                return False\n\n            if gpus:\n                for n in range(self._n_gpus):\n")]),
    dict(name='R20.8 sanity assert on the gpu count after the cells were marked', rules=('R20.8',), edits=[
        (_D, _SLOTS, "            assert len(alloc_gpus) == gpus, 'gpu shortage'\n\n" + _SLOTS)],
         note='an explicit failure after the marks: task[\'slots\'] is not set yet, the handler of _request_cb cannot free them'),
    dict(name='R20.8 gpus marked first, core fit test behind them', rules=('R20.8',), edits=[
        (_D, _MARKING,
             "            if gpus  > self._resources['gpus' ].count(0): return False\n\n"
             + _LISTS + "\n" + _GPU_LOOP + "\n"
             "            if cores > self._resources['cores'].count(0): return False\n\n"
             + _CORE_LOOP)]),
    dict(name='R20.9 seed C20-f: _run_task registers the waiting request after submit_tasks', rules=('R20.9',), edits=[
        (_M, _REG + _SUBMIT, _SUBMIT + _REG)]),
    dict(name='R20.9 seed C20-f with the registration in a helper called after the submission', rules=('R20.9',), edits=[
        (_M, _REG + _SUBMIT, _SUBMIT + "        self._track(tid, event, task)\n"),
        (_M, _RUN_AT, _TRACK + _RUN_AT)]),
    dict(name='R20.9 _run_task submits through _submit_tasks first, entry built afterwards', rules=('R20.9',), edits=[
        (_M, _REG + _SUBMIT,
             "        self._submit_tasks(self.request_cb([task]))\n"
             "        entry = [event, task]\n"
             "        self._task_service_data[tid] = entry\n")]),
    dict(name='R20.9 worker registers the pid outside the lock that covers proc.start()', rules=('R20.9',), edits=[
        (_D, "                    proc.start()\n                    self._pool[proc.pid] = proc\n",
             "                    proc.start()\n\n                self._pool[proc.pid] = proc\n")],
         note='_result_cb may run `del self._pool[pid]` first: KeyError kills the result watcher thread'),
    dict(name='R20.5 routing table filled under the inverted key', rules=('R20.5',), edits=[
        (_M, _ROUTE_LISTS, "        routes = {True: list(), False: list()}\n"),
        (_M, _ROUTE_IF, "            routes[mode != TASK_EXECUTABLE].append(task)\n"),
        (_M, _ROUTE_CALLS, "        self._submit_executable_tasks(routes[True])\n        self._submit_raptor_tasks(routes[False])")]),
    dict(name='R20.5 routing table read under swapped keys', rules=('R20.5',), edits=[
        (_M, _ROUTE_LISTS, "        routes = {'exe': [], 'raptor': []}\n"),
        (_M, _ROUTE_IF, "            key = 'exe' if mode == TASK_EXECUTABLE else 'raptor'\n            routes[key].append(task)\n"),
        (_M, _ROUTE_CALLS, "        self._submit_executable_tasks(routes['raptor'])\n        self._submit_raptor_tasks(routes['exe'])")]),
]

SILENT += [
    dict(name='_alloc: both fit tests first, marking folded into _claim(kind, count)', edits=[
        (_D, _LISTS + "\n" + _CORE_LOOP + "\n" + _GPU_LOOP,
             "            alloc_cores = self._claim('cores', cores)\n"
             "            alloc_gpus  = self._claim('gpus',  gpus)\n"),
        (_D, _ALLOC_AT, _CLAIM_PLAIN + _ALLOC_AT)],
         note='the clean-up of seed C20-e done right: all or nothing is kept'),
    dict(name='_alloc: gpu fit test after the cores were marked, failing path frees them again', edits=[
        (_D, "            if gpus  > self._resources['gpus' ].count(0): return False\n", ""),
        (_D, "            if gpus:\n                for n in range(self._n_gpus):\n",
             "            if gpus > self._resources['gpus'].count(0):\n                for n in alloc_cores:\n                    self._resources['cores'][n] = 0\n                return False\n\n            if gpus:\n                for n in range(self._n_gpus):\n")]),
    dict(name='_alloc: fit tests hoisted into one local flag', edits=[
        (_D, _FIT,
             "            fits = cores <= self._resources['cores'].count(0) and \\\n"
             "                   gpus  <= self._resources['gpus' ].count(0)\n"
             "            if not fits:\n"
             "                return False\n")]),
    dict(name='_alloc: fit result kept in a flag that gates both marking loops, refusal after them', edits=[
        (_D, _FIT,
             "            short = cores > self._resources['cores'].count(0) or \\\n"
             "                    gpus  > self._resources['gpus' ].count(0)\n"),
        (_D, "            if cores:\n                for n in range(self._n_cores):\n",
             "            if cores and not short:\n                for n in range(self._n_cores):\n"),
        (_D, "            if gpus:\n                for n in range(self._n_gpus):\n",
             "            if gpus and not short:\n                for n in range(self._n_gpus):\n"),
        (_D, _SLOTS, "            if short:\n                return False\n\n" + _SLOTS)],
         note='correlated tests: no path marks a cell and takes the refusal'),
    dict(name='_alloc: result returned through a local', edits=[
        (_D, "        self._prof.prof('schedule_ok', uid=uid)\n\n        return True\n",
             "        granted = True\n        self._prof.prof('schedule_ok', uid=uid)\n\n        return granted\n")]),
    dict(name='_alloc: index lists kept in one dict that becomes the slot', edits=[
        (_D, _LISTS, "            alloc = {'cores': list(), 'gpus': list()}\n"),
        (_D, "                        alloc_cores.append(n)\n                        if len(alloc_cores) == cores:\n",
             "                        alloc['cores'].append(n)\n                        if len(alloc['cores']) == cores:\n"),
        (_D, "                        alloc_gpus.append(n)\n                        if len(alloc_gpus) == gpus:\n",
             "                        alloc['gpus'].append(n)\n                        if len(alloc['gpus']) == gpus:\n"),
        (_D, _SLOTS, "            task['slots'] = [alloc]")]),
    dict(name='_alloc: indices recorded with += [n], asserts after the fit tests', edits=[
        (_D, "            assert cores >= 1\n            assert cores <= self._n_cores\n            assert gpus  <= self._n_gpus\n\n" + _FIT,
             _FIT + "\n            assert cores >= 1\n            assert cores <= self._n_cores\n            assert gpus  <= self._n_gpus\n"),
        (_D, "                        alloc_cores.append(n)\n", "                        alloc_cores += [n]\n")]),
    dict(name='_run_task: entry built in a local, registered by a helper before the submission', edits=[
        (_M, _REG + _SUBMIT, "        self._track(tid, event, task)\n        requests = [task]\n        self.submit_tasks(requests)\n"),
        (_M, _RUN_AT, _TRACK + _RUN_AT)]),
    dict(name='_run_task: entry removed again when the submission fails', edits=[
        (_M, _REG + _SUBMIT,
             "        entry = [event, task]\n"
             "        self._task_service_data[tid] = entry\n"
             "        try:\n"
             "            self.submit_tasks([task])\n"
             "        except Exception:\n"
             "            del self._task_service_data[tid]\n"
             "            raise\n")],
         note='what the change of seed C20-f wanted, without opening the window'),
    dict(name='_request_cb: pid held in a local inside the lock', edits=[
        (_D, "                    proc.start()\n                    self._pool[proc.pid] = proc\n",
             "                    proc.start()\n                    pid = proc.pid\n                    self._pool[pid] = proc\n")]),
    dict(name='_request_cb: failure report put before the exception fields are logged', edits=[
        (_D, "                self._log.exception('request failed')\n\n                # free resources again for failed task\n                self._dealloc(task)\n",
             "                # free resources again for failed task\n                self._dealloc(task)\n                self._log.exception('request failed')\n")]),
    dict(name='routing through a two-entry table keyed by the test result', edits=[
        (_M, _ROUTE_LISTS, "        routes = {True: list(), False: list()}\n"),
        (_M, _ROUTE_IF, "            routes[mode == TASK_EXECUTABLE].append(task)\n"),
        (_M, _ROUTE_CALLS, "        self._submit_executable_tasks(routes[True])\n        self._submit_raptor_tasks(routes[False])")]),
    dict(name='routing through a table keyed by names, bucket held in a local', edits=[
        (_M, _ROUTE_LISTS, "        routes = {'exe': [], 'raptor': []}\n"),
        (_M, _ROUTE_IF, "            key    = 'exe' if mode == TASK_EXECUTABLE else 'raptor'\n            bucket = routes[key]\n            bucket.append(task)\n"),
        (_M, _ROUTE_CALLS, "        self._submit_executable_tasks(routes['exe'])\n        self._submit_raptor_tasks(routes['raptor'])")]),
    dict(name='routing by a conditional expression between the two lists', edits=[
        (_M, _ROUTE_IF, "            (executable_tasks if mode == TASK_EXECUTABLE else raptor_tasks).append(task)\n")]),
]

# ---- round 4: kind agreement in _alloc (R20.2), backlog (R20.10) -------------
_GPU_MARK  = "                        self._resources['gpus'][n] = 1\n"
_CORE_MARK = "                        self._resources['cores'][n] = 1\n"
_GPU_TEST  = "                    if not self._resources['gpus'][n]:\n"
_BL_IF   = "                        if name not in self._raptor_tasks:\n"
_BL_NEW  = "                            self._raptor_tasks[name] = to_raptor[name]\n"
_BL_ADD  = "                            self._raptor_tasks[name] += to_raptor[name]\n"
_BL_BLOCK = _BL_IF + _BL_NEW + "                        else:\n" + _BL_ADD

MUTATIONS += [
    dict(name="R20.2 seed C20-g1: GPU loop marks the cell of 'cores'", rules=('R20.2',), edits=[
        (_D, _GPU_MARK, "                        self._resources['cores'][n] = 1\n")]),
    dict(name="R20.2 core loop marks the cell of 'gpus'", rules=('R20.2',), edits=[
        (_D, _CORE_MARK, "                        self._resources['gpus'][n] = 1\n")]),
    dict(name="R20.2 GPU loop tests the cell of 'cores' free", rules=('R20.2',), edits=[
        (_D, _GPU_TEST, "                    if not self._resources['cores'][n]:\n")]),
    dict(name="R20.2 seed C20-g1 through a cached list", rules=('R20.2',), edits=[
        (_D, _GPU_TEST + _GPU_MARK,
             "                    pool = self._resources['cores']\n" + _GPU_TEST +
             "                        pool[n] = 1\n")]),
    dict(name='R20.10 seed C20-g5: backlog of an unregistered master overwritten by the next round', rules=('R20.10',), edits=[
        (_B, _BL_ADD, _BL_NEW)]),
    dict(name='R20.10 backlog stored unconditionally', rules=('R20.10',), edits=[
        (_B, _BL_BLOCK, "                        self._raptor_tasks[name] = to_raptor[name]\n")]),
    dict(name='R20.10 presence test of the backlog inverted', rules=('R20.10',), edits=[
        (_B, _BL_IF, "                        if name in self._raptor_tasks:\n")]),
    dict(name='R20.10 backlog replaced by a copy of the new requests', rules=('R20.10',), edits=[
        (_B, _BL_ADD, "                            self._raptor_tasks[name] = list(to_raptor[name])\n")]),
]

SILENT += [
    dict(name='R20.2 GPU loop over enumerate() of a cached list, renamed index, early continue', edits=[
        (_D, _GPU_LOOP,
             "            if gpus:\n"
             "                pool = self._resources['gpus']\n"
             "                for idx, busy in enumerate(pool):\n"
             "                    if busy:\n                        continue\n"
             "                    pool[idx] = 1\n"
             "                    alloc_gpus.append(idx)\n"
             "                    if len(alloc_gpus) == gpus:\n"
             "                        break\n")]),
    dict(name='R20.2 GPU mark and record exchanged, free test against the free value', edits=[
        (_D, _GPU_TEST + _GPU_MARK + "                        alloc_gpus.append(n)\n",
             "                    if self._resources['gpus'][n] == 0:\n"
             "                        alloc_gpus.append(n)\n" + _GPU_MARK)]),
    dict(name='R20.2 kind names held in locals of _dealloc only, _alloc untouched', edits=[
        (_D, "            for n in resources['gpus']:\n                assert self._resources['gpus'][n]\n                self._resources['gpus'][n] = 0\n",
             "            held = resources['gpus']\n            for n in held:\n                assert self._resources['gpus'][n]\n                self._resources['gpus'][n] = 0\n")]),
    dict(name='R20.10 backlog extended with old + new', edits=[
        (_B, _BL_ADD, "                            self._raptor_tasks[name] = self._raptor_tasks[name] + to_raptor[name]\n")]),
    dict(name='R20.10 backlog in early-continue form with a cached container', edits=[
        (_B, _BL_BLOCK,
             "                        backlog = self._raptor_tasks\n"
             "                        if name in backlog:\n"
             "                            backlog[name] += to_raptor[name]\n"
             "                            continue\n"
             "                        backlog[name] = to_raptor[name]\n")]),
    dict(name='R20.10 backlog through get(name, []) + new', edits=[
        (_B, _BL_BLOCK,
             "                        cached = self._raptor_tasks.get(name, [])\n"
             "                        self._raptor_tasks[name] = cached + to_raptor[name]\n")]),
    dict(name='R20.10 presence test held in a negated local flag, branches exchanged', edits=[
        (_B, _BL_BLOCK,
             "                        known = name in self._raptor_tasks\n"
             "                        if known:\n" + _BL_ADD +
             "                        else:\n" + _BL_NEW)]),
    dict(name='R20.10 backlog through setdefault().extend()', edits=[
        (_B, _BL_BLOCK,
             "                        self._raptor_tasks.setdefault(name, []).extend(to_raptor[name])\n")]),
]


# ------------------------------------------------------------------------------
# round 5: R20.6 restore on every way through the finally, R20.11 (exit code
# read after the wait), R20.12 (wake-up of the run_task() waiter), R20.13
# (membership test on the table that is read)
#
_FIN_FUNC = "                else:\n                    args.pop(0)\n\n            os.environ = old_env\n"
_EVAL_FIN = ("            err = strerr.getvalue() + ('\\neval failed: %s' % e)\n            exc = (repr(e), '\\n'.join(ru.get_exception_trace()))\n            ret = 1\n\n"
             "        finally:\n            # restore stdio\n            sys.stdout = bak_stdout\n            sys.stderr = bak_stderr\n\n            os.environ = old_env\n")
_PROC_RET = "            out, err = proc.communicate()\n            ret      = proc.returncode\n"
_PROC_NEW = "            proc = sp.Popen(cmd, env=env,  stdin=None,\n                            stdout=sp.PIPE, stderr=sp.PIPE,\n                            close_fds=True, shell=True)\n"
_RES_STATE = ("            if not task.get('target_state'):\n\n                ret = task.get('exit_code')\n                if ret is None:\n                    ret = -1\n\n"
              "                if int(ret) == 0: task['target_state'] = rps.DONE\n                else            : task['target_state'] = rps.FAILED\n")
_RES_WAKE  = ("            if uid in self._task_service_data:\n\n                # update task info and signal task service thread\n"
              "                self._log.debug('unlock 2 %s', uid)\n                self._task_service_data[uid].append(task)\n"
              "                self._task_service_data[uid][0].set()\n")
_STAR = "                if '*' in self._raptor_tasks:\n\n                    tasks = self._raptor_tasks['*']\n                    del self._raptor_tasks['*']\n"
_NAME = "                if name in self._raptor_tasks:\n\n                    tasks = self._raptor_tasks[name]\n                    del self._raptor_tasks[name]\n\n                    self._log.debug('relay"

MUTATIONS += [
    dict(name='R20.6 seed C20-h2: environment restore slipped into `if comm:`', rules=('R20.6',), edits=[
        (_W, _FIN_FUNC, "                else:\n                    args.pop(0)\n\n                os.environ = old_env\n")]),
    dict(name='R20.6 eval: environment restored only after a failure', rules=('R20.6',), edits=[
        (_W, _EVAL_FIN, _EVAL_FIN.replace("            os.environ = old_env\n", "            if ret:\n                os.environ = old_env\n"))]),
    dict(name='R20.6 eval: stdout restored only when it was redirected to a non-empty buffer', rules=('R20.6',), edits=[
        (_W, _EVAL_FIN, _EVAL_FIN.replace("            sys.stdout = bak_stdout\n", "            if strout:\n                sys.stdout = bak_stdout\n"))]),
    dict(name='R20.11 seed C20-h3: returncode read before communicate()', rules=('R20.11',), edits=[
        (_W, _PROC_RET, "            ret      = proc.returncode\n            out, err = proc.communicate()\n")]),
    dict(name='R20.11 pipes read directly, the process is never waited for', rules=('R20.11',), edits=[
        (_W, _PROC_RET, "            out, err = proc.stdout.read(), proc.stderr.read()\n            ret      = proc.returncode\n")]),
    dict(name='R20.11 communicate() only for requests with arguments', rules=('R20.11',), edits=[
        (_W, _PROC_RET, "            out, err = None, None\n            if args:\n                out, err = proc.communicate()\n            ret      = proc.returncode\n")]),
    dict(name='R20.12 seed C20-h4: early continue for requests which have a target state', rules=('R20.12',), edits=[
        (_M, _RES_STATE, "            if task.get('target_state'):\n                continue\n\n            ret = task.get('exit_code')\n            if ret is None:\n                ret = -1\n\n"
                         "            if int(ret) == 0: task['target_state'] = rps.DONE\n            else            : task['target_state'] = rps.FAILED\n")]),
    dict(name='R20.12 only requests which ended DONE wake their waiter', rules=('R20.12',), edits=[
        (_M, _RES_WAKE, _RES_WAKE.replace("            if uid in self._task_service_data:\n", "            if uid in self._task_service_data and task['target_state'] == rps.DONE:\n"))]),
    dict(name='R20.12 the loop stops at the first failed request of the bulk', rules=('R20.12',), edits=[
        (_M, _RES_WAKE, "            if task['target_state'] == rps.FAILED:\n                break\n\n" + _RES_WAKE)]),
    dict(name='R20.12 the answer is stored for every waiter, the event set only for exit code 0', rules=('R20.12',), edits=[
        (_M, _RES_WAKE, _RES_WAKE.replace("                self._task_service_data[uid][0].set()\n", "                if task.get('exit_code') == 0:\n                    self._task_service_data[uid][0].set()\n"))]),
    dict(name="R20.13 seed C20-h6: '*' looked up in the queue table", rules=('R20.13',), edits=[
        (_B, _STAR, _STAR.replace("if '*' in self._raptor_tasks:", "if '*' in self._raptor_queues:"))]),
    dict(name='R20.13 sibling: the backlog of the registering master is looked up in the queue table', rules=('R20.13',), edits=[
        (_B, _NAME, _NAME.replace("if name in self._raptor_tasks:", "if name in self._raptor_queues:"))]),
    dict(name='R20.13 unregister: the queue is deleted when the name is in the backlog', rules=('R20.13',), edits=[
        (_B, "                if name not in self._raptor_queues:\n                    self._log.warn('raptor queue %s unknown [%s]', name, msg)\n",
             "                if name not in self._raptor_tasks:\n                    self._log.warn('raptor queue %s unknown [%s]', name, msg)\n")]),
    dict(name="R20.13 '*' test on the queue table held in a local", rules=('R20.13',), edits=[
        (_B, _STAR, "                backlog = '*' in self._raptor_queues\n                if backlog:\n\n                    tasks = self._raptor_tasks['*']\n                    del self._raptor_tasks['*']\n")]),
]

SILENT += [
    # R20.6
    dict(name='eval: environment restored first in the finally', edits=[
        (_W, _EVAL_FIN, _EVAL_FIN.replace("            # restore stdio\n            sys.stdout = bak_stdout\n            sys.stderr = bak_stderr\n\n            os.environ = old_env\n",
                                          "            os.environ = old_env\n\n            # restore stdio\n            sys.stdout = bak_stdout\n            sys.stderr = bak_stderr\n"))]),
    dict(name='func: environment restored before the communicator is removed', edits=[
        (_W, _FIN_FUNC, "                else:\n                    args.pop(0)\n"),
        (_W, "            sys.stderr = bak_stderr\n\n            # remove communicator from args again\n", "            sys.stderr = bak_stderr\n            os.environ = old_env\n\n            # remove communicator from args again\n")]),
    dict(name='func: environment restored in both arms of `if comm:`', edits=[
        (_W, _FIN_FUNC, "                else:\n                    args.pop(0)\n                os.environ = old_env\n            else:\n                os.environ = old_env\n")]),
    # R20.11
    dict(name='proc: an extra wait() between communicate() and the read', edits=[
        (_W, _PROC_RET, "            out, err = proc.communicate()\n            proc.wait()\n            ret      = proc.returncode\n")]),
    dict(name='proc: exit code taken from wait()', edits=[
        (_W, _PROC_RET, "            out, err = proc.communicate()\n            ret      = proc.wait()\n")]),
    dict(name='proc: Popen as a context manager', edits=[
        (_W, _PROC_NEW + _PROC_RET, "            with sp.Popen(cmd, env=env,  stdin=None,\n                          stdout=sp.PIPE, stderr=sp.PIPE,\n                          close_fds=True, shell=True) as proc:\n"
                                    "                out, err = proc.communicate()\n                ret      = proc.returncode\n")]),
    dict(name='proc: streams and code through locals', edits=[
        (_W, _PROC_RET, "            streams  = proc.communicate()\n            out, err = streams\n            code     = proc.returncode\n            ret      = code\n")]),
    # R20.12
    dict(name='result_cb: wake-up in early-continue form', edits=[
        (_M, _RES_WAKE, "            if uid not in self._task_service_data:\n                continue\n\n            self._log.debug('unlock 2 %s', uid)\n"
                        "            self._task_service_data[uid].append(task)\n            self._task_service_data[uid][0].set()\n")]),
    dict(name='result_cb: wake-up through the entry held in a local', edits=[
        (_M, _RES_WAKE, "            entry = self._task_service_data.get(uid)\n            if entry is not None:\n                self._log.debug('unlock 2 %s', uid)\n"
                        "                entry.append(task)\n                entry[0].set()\n")]),
    dict(name='result_cb: membership test held in a local', edits=[
        (_M, _RES_WAKE, _RES_WAKE.replace("            if uid in self._task_service_data:\n", "            waiting = uid in self._task_service_data\n            if waiting:\n"))]),
    dict(name='result_cb: target state kept with pass / else', edits=[
        (_M, _RES_STATE, "            if task.get('target_state'):\n                pass\n            else:\n                ret = task.get('exit_code')\n                if ret is None:\n                    ret = -1\n\n"
                         "                if int(ret) == 0: task['target_state'] = rps.DONE\n                else            : task['target_state'] = rps.FAILED\n")]),
    # R20.13
    dict(name="control_cb: '*' backlog taken with pop()", edits=[
        (_B, _STAR, "                if '*' in self._raptor_tasks:\n\n                    tasks = self._raptor_tasks.pop('*')\n")]),
    dict(name="control_cb: '*' test held in a local", edits=[
        (_B, _STAR, "                backlog = '*' in self._raptor_tasks\n                if backlog:\n\n                    tasks = self._raptor_tasks['*']\n                    del self._raptor_tasks['*']\n")]),
    dict(name="control_cb: '*' test on keys()", edits=[
        (_B, _STAR, _STAR.replace("if '*' in self._raptor_tasks:", "if '*' in self._raptor_tasks.keys():"))]),
    dict(name='control_cb: backlog table through a local alias', edits=[
        (_B, _STAR, "                cached = self._raptor_tasks\n                if '*' in cached:\n\n                    tasks = cached['*']\n                    del cached['*']\n")]),
]

# ---- round 6: routing table built from the two route lists (R20.5), backlog
#      cell offered as a setdefault default (R20.10) ----------------------------
_ROUTE_TABLE = ("        raptor_tasks     = list()\n"
                "        executable_tasks = list()\n"
                "        routes           = {True : executable_tasks,\n"
                "                            False: raptor_tasks}\n")
_BL_SETDEF = "                        self._raptor_tasks.setdefault(name, to_raptor[name])\n"

MUTATIONS += [
    dict(name='R20.5 table of the two route lists indexed by the inverted test', rules=('R20.5',), edits=[
        (_M, _ROUTE_LISTS, _ROUTE_TABLE),
        (_M, _ROUTE_IF, "            routes[mode != TASK_EXECUTABLE].append(task)\n")]),
    dict(name='R20.5 table of the two route lists built with the lists exchanged', rules=('R20.5',), edits=[
        (_M, _ROUTE_LISTS, _ROUTE_TABLE.replace('True : executable_tasks', 'True : raptor_tasks').replace('False: raptor_tasks', 'False: executable_tasks')),
        (_M, _ROUTE_IF, "            routes[mode == TASK_EXECUTABLE].append(task)\n")]),
    dict(name='R20.5 table filled by stores, both keys given the same list', rules=('R20.5',), edits=[
        (_M, _ROUTE_LISTS, _ROUTE_LISTS + "        routes = dict()\n        routes[True]  = executable_tasks\n        routes[False] = executable_tasks\n"),
        (_M, _ROUTE_IF, "            bucket = routes[mode == TASK_EXECUTABLE]\n            bucket += [task]\n")]),
    dict(name='R20.5 table holds copies of the route lists', rules=('R20.5',), edits=[
        (_M, _ROUTE_LISTS, _ROUTE_LISTS + "        routes = {True: list(executable_tasks), False: list(raptor_tasks)}\n"),
        (_M, _ROUTE_IF, "            routes[mode == TASK_EXECUTABLE].append(task)\n")],
         note='the submit calls get the two empty lists: every request is dropped'),
    dict(name='R20.5 table of the route lists written in place, lists exchanged', rules=('R20.5',), edits=[
        (_M, _ROUTE_IF, "            {False: executable_tasks, True: raptor_tasks}[mode == TASK_EXECUTABLE].append(task)\n")]),
    dict(name='R20.10 seed C20-i5: backlog cell offered as setdefault default', rules=('R20.10',), edits=[
        (_B, _BL_BLOCK, _BL_SETDEF)]),
    dict(name='R20.10 seed C20-i5 with the batch hoisted into a local', rules=('R20.10',), edits=[
        (_B, _BL_BLOCK, "                        batch = to_raptor[name]\n                        self._raptor_tasks.setdefault(name, batch)\n")]),
    dict(name='R20.10 setdefault kept on the path where the cell exists', rules=('R20.10',), edits=[
        (_B, _BL_ADD, "    " + _BL_SETDEF)]),
    dict(name='R20.10 backlog cell stored with update({name: batch})', rules=('R20.10',), edits=[
        (_B, _BL_BLOCK, "                        self._raptor_tasks.update({name: to_raptor[name]})\n")]),
]

SILENT += [
    dict(name='_submit_tasks: table of the two route lists indexed by the mode test (seed C20-r12)', edits=[
        (_M, _ROUTE_LISTS, _ROUTE_TABLE),
        (_M, _ROUTE_IF, "            routes[mode == TASK_EXECUTABLE].append(task)\n")]),
    dict(name='_submit_tasks: dict(exe=.., other=..) of the route lists, bucket held in a local', edits=[
        (_M, _ROUTE_LISTS, _ROUTE_LISTS + "        routes = dict(exe=executable_tasks, other=raptor_tasks)\n"),
        (_M, _ROUTE_IF, "            bucket = routes['exe' if mode == TASK_EXECUTABLE else 'other']\n            bucket.append(task)\n")]),
    dict(name='_submit_tasks: table filled by stores, bucket grown with +=', edits=[
        (_M, _ROUTE_LISTS, _ROUTE_LISTS + "        routes = dict()\n        routes[True]  = executable_tasks\n        routes[False] = raptor_tasks\n"),
        (_M, _ROUTE_IF, "            routes[mode == TASK_EXECUTABLE] += [task]\n")]),
    dict(name='_submit_tasks: tuple of the route lists indexed by int(test), extend', edits=[
        (_M, _ROUTE_LISTS, _ROUTE_LISTS + "        routes = (raptor_tasks, executable_tasks)\n"),
        (_M, _ROUTE_IF, "            routes[int(mode == TASK_EXECUTABLE)].extend([task])\n")]),
    dict(name='_submit_tasks: table of the route lists, submit calls read the table', edits=[
        (_M, _ROUTE_LISTS, _ROUTE_TABLE),
        (_M, _ROUTE_IF, "            bucket = routes[mode == TASK_EXECUTABLE]\n            bucket.append(task)\n"),
        (_M, _ROUTE_CALLS, "        self._submit_executable_tasks(routes[True])\n        self._submit_raptor_tasks(routes[False])")]),
    dict(name='_submit_tasks: table of the route lists written in place at the append', edits=[
        (_M, _ROUTE_IF, "            {True: executable_tasks, False: raptor_tasks}[mode == TASK_EXECUTABLE].append(task)\n")]),
    dict(name='R20.10 setdefault with the batch only where the cell is absent', edits=[
        (_B, _BL_NEW, "    " + _BL_SETDEF)]),
    dict(name='R20.10 empty cell by setdefault, then +=', edits=[
        (_B, _BL_BLOCK, "                        self._raptor_tasks.setdefault(name, [])\n                        self._raptor_tasks[name] += to_raptor[name]\n")]),
    dict(name='R20.10 empty cell from a local by setdefault, then extend', edits=[
        (_B, _BL_BLOCK, "                        fresh = list()\n                        self._raptor_tasks.setdefault(name, fresh)\n                        self._raptor_tasks[name].extend(to_raptor[name])\n")]),
    dict(name='R20.10 cell created with update({name: batch}) where it is absent', edits=[
        (_B, _BL_NEW, "                            self._raptor_tasks.update({name: to_raptor[name]})\n")]),
]

from .c14 import corpus_variants          # noqa: E402
# ---- round 7: marking helper called inside the slot expression (R20.2 / R20.8
#      read _alloc through _alloc_view), sibling backlog cells (R20.14) -------
_CLAIM_R13 = (
    "    def _claim(self, kind, count):\n\n"
    "        claimed = list()\n\n"
    "        if not count:\n"
    "            return claimed\n\n"
    "        occupancy = self._resources[kind]\n\n"
    "        for n, busy in enumerate(occupancy):\n\n"
    "            if busy:\n"
    "                continue\n\n"
    "            occupancy[n] = 1\n"
    "            claimed.append(n)\n\n"
    "            if len(claimed) == count:\n"
    "                break\n\n"
    "        return claimed\n\n\n")
_FIT_OR = ("            if cores > self._resources['cores'].count(0) or \\\n"
           "               gpus  > self._resources['gpus' ].count(0):\n"
           "                return False\n")
_SLOTS_CALLS = ("            task['slots'] = [{'cores': self._claim('cores', cores),\n"
                "                              'gpus' : self._claim('gpus',  gpus)}]")
_NAME_PUT = ("                    self._log.debug('relay %d tasks to raptor %s', len(tasks), name)\n"
             "                    self._raptor_queues[name].put(tasks)\n")
_STAR_BLOCK = (_STAR + "\n"
               "                    self._log.debug('* relay %d tasks to raptor %s', len(tasks), name)\n"
               "                    self._raptor_queues[name].put(tasks)\n")
_STAR_NESTED = (
    "                    if '*' in self._raptor_tasks:\n\n"
    "                        tasks = self._raptor_tasks['*']\n"
    "                        del self._raptor_tasks['*']\n\n"
    "                        self._log.debug('* relay %d tasks to raptor %s', len(tasks), name)\n"
    "                        self._raptor_queues[name].put(tasks)\n")


def _r13(slots=_SLOTS_CALLS, claim=_CLAIM_R13, fit=_FIT_OR):
    return [(_D, _MARKING, fit), (_D, _SLOTS, slots),
            (_D, _ALLOC_AT, claim + _ALLOC_AT)]


MUTATIONS += [
    dict(name="R20.14 seed C20-j4: the '*' relay became an elif of the named relay", rules=('R20.14',), edits=[
        (_B, _STAR, _STAR.replace("                if '*'", "                elif '*'"))],
         note="one request for master M by name and one for '*' cached, M registers: the '*' request stays cached"),
    dict(name='R20.14 early return after the named backlog was relayed', rules=('R20.14',), edits=[
        (_B, _NAME_PUT, _NAME_PUT + "                    return\n")]),
    dict(name="R20.14 '*' relay nested into the branch of the named backlog", rules=('R20.14',), edits=[
        (_B, _STAR_BLOCK, _STAR_NESTED)],
         note="only '*' cached when M registers: never relayed"),
    dict(name="R20.14 '*' relay only when no named backlog existed (test held in a local)", rules=('R20.14',), edits=[
        (_B, "                # send tasks which were collected for this queue\n",
             "                named = name in self._raptor_tasks\n"),
        (_B, _STAR_BLOCK, "                if not named:\n" + _STAR_NESTED)]),
    dict(name='R20.14 sibling: named relay only when no wildcard backlog exists', rules=('R20.14',), edits=[
        (_B, "                if name in self._raptor_tasks:\n\n                    tasks = self._raptor_tasks[name]\n                    del self._raptor_tasks[name]\n\n                    self._log.debug('relay",
             "                if '*' in self._raptor_tasks:\n                    pass\n                elif name in self._raptor_tasks:\n\n                    tasks = self._raptor_tasks[name]\n                    del self._raptor_tasks[name]\n\n                    self._log.debug('relay")]),
    dict(name='R20.2 r13 shape (marking in _claim, called inside the slot dict) without the busy test', rules=('R20.2',), edits=
         _r13(claim=_CLAIM_R13.replace("            if busy:\n                continue\n\n", ""))),
    dict(name='R20.1 r13 shape with a second call of _claim outside the lock', rules=('R20.1',), edits=
         _r13() + [(_D, "        self._prof.prof('schedule_try', uid=uid)\n",
                        "        self._prof.prof('schedule_try', uid=uid)\n        spare = self._claim('gpus', 0)\n")],
         note='the helper no longer runs with the lock held on every entry'),
    dict(name='R20.1 r13 shape with _claim handed out as a callback', rules=('R20.1',), edits=
         _r13() + [(_D, "        self._prof.prof('schedule_try', uid=uid)\n",
                        "        self._prof.prof('schedule_try', uid=uid)\n        self._claimer = self._claim\n")]),
    dict(name='R20.2 r13 shape with the kinds crossed in the slot dict', rules=('R20.2',), edits=
         _r13(slots="            task['slots'] = [{'cores': self._claim('gpus',  gpus),\n"
                    "                              'gpus' : self._claim('cores', cores)}]")),
    dict(name='R20.8 r13 shape with the gpu fit test behind the slot assignment', rules=('R20.8',), edits=
         _r13(fit="            if cores > self._resources['cores'].count(0):\n                return False\n",
              slots=_SLOTS_CALLS + "\n            if len(task['slots'][0]['gpus']) < gpus:\n                return False\n")),
]

SILENT += [
    dict(name='seed C20-r13: marking in _claim called inside the slot dict, guards merged with or', edits=_r13()),
    dict(name='r13 shape, slot built by dict(cores=.., gpus=..)', edits=
         _r13(slots="            task['slots'] = [dict(cores=self._claim('cores', cores),\n"
                    "                                  gpus=self._claim('gpus', gpus))]")),
    dict(name='r13 shape, _claim of the checked-free kind (CLAIM_PLAIN body)', edits=
         _r13(claim=_CLAIM_PLAIN)),
    dict(name="control_cb: '*' test repeats that the named cell is gone (it was deleted above)", edits=[
        (_B, _STAR, _STAR.replace("if '*' in self._raptor_tasks:", "if name not in self._raptor_tasks and '*' in self._raptor_tasks:"))]),
    dict(name='control_cb: both membership tests taken up-front into locals', edits=[
        (_B, "                # send tasks which were collected for this queue\n                if name in self._raptor_tasks:\n",
             "                has_named = name in self._raptor_tasks\n                has_star  = '*' in self._raptor_tasks\n                if has_named:\n"),
        (_B, _STAR, _STAR.replace("if '*' in self._raptor_tasks:", "if has_star:"))]),
    dict(name='control_cb: backlogs taken with pop()', edits=[
        (_B, "                    tasks = self._raptor_tasks[name]\n                    del self._raptor_tasks[name]\n\n                    self._log.debug('relay",
             "                    tasks = self._raptor_tasks.pop(name)\n\n                    self._log.debug('relay"),
        (_B, "                    tasks = self._raptor_tasks['*']\n                    del self._raptor_tasks['*']\n",
             "                    tasks = self._raptor_tasks.pop('*')\n")]),
    dict(name="control_cb: '*' relay in early-exit form at the end of the branch", edits=[
        (_B, _STAR_BLOCK,
             "                if '*' not in self._raptor_tasks:\n                    return\n\n"
             "                tasks = self._raptor_tasks['*']\n"
             "                del self._raptor_tasks['*']\n\n"
             "                self._log.debug('* relay %d tasks to raptor %s', len(tasks), name)\n"
             "                self._raptor_queues[name].put(tasks)\n")]),
]

_PENV  = "            env  = dict(self._task_env)\n            env.update(task['description']['environment'])\n"
_SENV  = "            env = dict(self._task_env)\n            env.update(task['description']['environment'])\n"
_RENV  = "                env = self._task_env\n                env['RP_TASK_ID'] = task['uid']\n"

MUTATIONS += [
    dict(name='R20.15 _dispatch_proc updates the worker-wide task environment through an alias (k2)', rules=('R20.15',), edits=[
        (_W, _PENV, "            env  = self._task_env\n            env.update(task['description'].get('environment') or {})\n")]),
    dict(name='R20.15 _dispatch_shell: alias through a second local, keys stored one by one', rules=('R20.15',), edits=[
        (_W, _SENV, "            base = self._task_env\n            env = base\n            for k, v in task['description']['environment'].items():\n                env[k] = v\n")]),
    dict(name='R20.15 _dispatch_shell updates the attribute itself', rules=('R20.15',), edits=[
        (_W, _SENV, "            self._task_env.update(task['description']['environment'])\n            env = self._task_env\n")]),
    dict(name='R20.15 _request_cb merges the request environment into the shared mapping', rules=('R20.15',), edits=[
        (_D, _RENV, _RENV + "                env.update(task.get('environment') or {})\n")]),
    dict(name='R20.15 _dispatch_proc: copy only when the request has an environment', rules=('R20.15',), edits=[
        (_W, _PENV, "            env  = self._task_env\n            if not task['description'].get('environment'):\n                env = dict(env)\n            env.update(task['description']['environment'])\n")]),
]

SILENT += [
    dict(name='_dispatch_proc: environment copied with .copy(), renamed local', edits=[
        (_W, _PENV, "            penv = self._task_env.copy()\n            penv.update(task['description']['environment'])\n            env  = penv\n")]),
    dict(name='_dispatch_shell: alias first, then copied before the update', edits=[
        (_W, _SENV, "            base = self._task_env\n            env = dict(base)\n            renv = task['description']['environment']\n            env.update(renv)\n")]),
    dict(name='_dispatch_proc: merged with a dict display', edits=[
        (_W, _PENV, "            env  = {**self._task_env, **task['description']['environment']}\n")]),
    dict(name='_dispatch_shell: keys stored one by one into a comprehension copy', edits=[
        (_W, _SENV, "            env = {k: v for k, v in self._task_env.items()}\n            for k, v in task['description']['environment'].items():\n                env[k] = v\n")]),
    dict(name='_request_cb: per-request copy of the task environment', edits=[
        (_D, _RENV, "                env = dict(self._task_env)\n                env['RP_TASK_ID'] = task['uid']\n")]),
]


SILENT += corpus_variants('C20')
