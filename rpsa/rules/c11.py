"""C11  Staging directives move the named data to the named place
(DESIGN 5 / C11)

All rules work on a finite domain: the six staging action constants of
constants.py.  A stager has an *intake filter* (which directives of a task it
takes) and a *handler* (what it does per directive); tests which compare the
directive's action with constants are evaluated for one action at a time, every
other test is unconstrained.
"""

import ast
import copy

from ..model import (walk, dotted, call_name, kwarg, unparse, short, UNKNOWN,
                     root_name, AnalysisError, calls_in, stores_in_target)
from ..cfg import cfg_of
from ..flow import guards, const_compare
from .. import idioms as I

HELPER = 'utils/staging_helper.py'
SD     = 'staging_directives.py'

# anchor table: the action constants (constants.py) ...
ACTIONS = ('COPY', 'LINK', 'MOVE', 'DOWNLOAD', 'TRANSFER', 'TARBALL')

# ... and the four stagers: (label, module, class, intake method, description
# key whose directives it takes, side)
STAGERS = [
    ('client-in',  'tmgr/staging_input/default.py',   'Default', 'work',
     'input_staging',  'client'),
    ('agent-in',   'agent/staging_input/default.py',  'Default', '_work',
     'input_staging',  'agent'),
    ('agent-out',  'agent/staging_output/default.py', 'Default', 'work',
     'output_staging', 'agent'),
    ('client-out', 'tmgr/staging_output/default.py',  'Default', 'work',
     'output_staging', 'client'),
]

# R11.2: actions which must be taken by one of the two stagers of a direction.
# Output: DESIGN C11 / R11.2 - DOWNLOAD and TARBALL have no meaning for output.
COVER = {'input_staging' : ACTIONS,
         'output_staging': ('LINK', 'COPY', 'MOVE', 'TRANSFER')}

# R11.6: which task entry feeds which context key, and the documented `pwd`
# of each component (complete_url docstring; "!!!" comments in the stagers)
CTX_SOURCE = {'client'  : 'client_sandbox',
              'task'    : 'task_sandbox',
              'pilot'   : 'pilot_sandbox',
              'session' : 'session_sandbox',
              'resource': 'resource_sandbox',
              'endpoint': 'endpoint_fs'}
CTX_PWD = {('client-in',  'src'): 'client_sandbox',
           ('client-in',  'tgt'): 'task_sandbox',
           ('agent-in',   'src'): 'task_sandbox',
           ('agent-in',   'tgt'): 'task_sandbox',
           ('agent-out',  'src'): 'task_sandbox',
           ('agent-out',  'tgt'): 'task_sandbox',
           ('client-out', 'src'): 'task_sandbox',
           ('client-out', 'tgt'): 'client_sandbox'}

# calls without a staging effect (profiling, logging)
NEUTRAL_PREFIX = ('self._prof.', 'self._log.')
# library calls which move / link / remove files
FS_EFFECTS = {'os.link', 'os.symlink', 'os.rename', 'os.replace', 'os.remove',
              'os.unlink', 'os.makedirs', 'os.mkdir'}
# calls which only compute (used to tell "skipped" from "not understood")
PURE_EXT      = ('os.path.', 'tarfile.open', 'tempfile.', 'radical.utils.')
PURE_METHODS  = {'get', 'strip', 'format', 'keys', 'items', 'values', 'close',
                 'append', 'startswith', 'endswith', 'split', 'join', 'lower'}
PURE_BUILTINS = {'str', 'len', 'isinstance', 'list', 'dict', 'repr', 'int',
                 'float', 'bool', 'tuple', 'set'}


# ------------------------------------------------------------------------------
# helpers
#
def action_values(prog):
    return {n: prog.const('constants.py', n) for n in ACTIONS}


def _key_read(expr, key):
    """expr is X['key'] or X.get('key'[, d])"""
    if isinstance(expr, ast.Subscript) and isinstance(expr.slice, ast.Constant):
        return expr.slice.value == key
    if isinstance(expr, ast.Call) and isinstance(expr.func, ast.Attribute) \
            and expr.func.attr == 'get' and expr.args and \
            isinstance(expr.args[0], ast.Constant):
        return expr.args[0].value == key
    return False


def key_exprs(scope, key):
    """unparse() forms under which the value of directive/task entry `key` is
    read inside `scope`: the reads themselves and plain names bound to one"""
    out = set()
    for n in walk(scope):
        if _key_read(n, key):
            out.add(unparse(n))
        if isinstance(n, ast.Assign) and _key_read(n.value, key):
            for t in n.targets:
                if isinstance(t, ast.Name):
                    out.add(t.id)
    return out


def _reads_any(atom, exprs):
    for n in walk(atom):
        if isinstance(n, (ast.Name, ast.Subscript, ast.Call)) and \
                unparse(n) in exprs:
            return True
    return False


def eval_const_atom(prog, f, atom, exprs, value):
    """truth of `atom` when every expression in `exprs` has `value`; None when
    the atom does not speak about them"""
    if unparse(atom) in exprs:
        return bool(value)
    cc = const_compare(prog, f.module, atom, f.cls)
    if cc is not None and cc[0] in exprs:
        return (value in cc[2]) == (cc[1] == 'in')
    if _reads_any(atom, exprs):
        # not a plain comparison: evaluate the expression with `value` in the
        # place of the reads (`(x or DONE) != DONE`, `not x == C`, ..)
        v = value_under(prog, f, atom, {x: value for x in exprs})
        if v is not _NOVAL:
            return bool(v)
        raise AnalysisError(
            'UNRECOGNISED-IDIOM %s: the test `%s` reads %s but is not a '
            'comparison with constants' % (f.where, short(atom, 60),
                                           sorted(exprs)))
    return None


def eval_keys_atom(prog, f, atom, scope, keys):
    """truth of `atom` when the entries `keys` ({key: value}) of the task /
    directive have these values - wherever they are read inside `scope`: in
    the atom itself, through a local computed from the reads (a hoisted flag,
    a test kept in a name, a name assigned in both arms of a test on them), or
    inside a one-line helper method the atom calls.  None when the atom does
    not speak about them."""
    env = {}
    for k, v in keys.items():
        for x in key_exprs(scope, k):
            env[x] = v
    if unparse(atom) in env:
        return bool(env[unparse(atom)])
    cc = const_compare(prog, f.module, atom, f.cls)
    if cc is not None and cc[0] in env:
        return (env[cc[0]] in cc[2]) == (cc[1] == 'in')
    derived = derived_values(prog, f, env)
    speaks = _reads_any(atom, set(env) | set(derived)) or any(
        helper_return(prog, f, c, keys) is not None
        for c in walk(atom) if isinstance(c, ast.Call))
    if not speaks:
        return None
    v = value_under(prog, f, atom, env, derived, keys)
    if v is _NOVAL:
        raise AnalysisError(
            'UNRECOGNISED-IDIOM %s: the test `%s` depends on %s but cannot be '
            'evaluated for given values of them' % (f.where, short(atom, 60),
                                                    sorted(keys)))
    return bool(v)


def helper_return(prog, f, call, keys):
    """(helper, returned expression, env) if `call` is a call of an own method
    (or nested / module function) whose body is one `return <expr>` which
    reads one of the entries `keys`; None otherwise"""
    if not keys or not (call_name(call).startswith('self.') or
                        isinstance(call.func, ast.Name)):
        return None
    h = prog.resolve_call(f, call)
    if h is None or h is f:
        return None
    body = [st for st in h.node.body
            if not (isinstance(st, ast.Expr) and
                    isinstance(st.value, ast.Constant))]
    if len(body) != 1 or not isinstance(body[0], ast.Return) or \
            body[0].value is None:
        return None
    env = {}
    for k, v in keys.items():
        for x in key_exprs(h.node, k):
            env[x] = v
    if not env:
        return None
    return h, body[0].value, env


_NOVAL = object()
_DERIVED = {}


def value_under(prog, f, e, env, derived=None, keys=None):
    """the value of expression `e` when every expression in `env` (unparse
    form -> value) has its value and everything else folds to a constant;
    _NOVAL otherwise.  and / or have Python's value semantics (`x or C` is x
    if x is true)"""
    rec = lambda x: value_under(prog, f, x, env, derived, keys)  # noqa: E731
    if unparse(e) in env:
        return env[unparse(e)]
    if isinstance(e, ast.Constant):
        return e.value
    if isinstance(e, ast.Name) and derived and e.id in derived:
        return derived[e.id][0]
    if isinstance(e, ast.BoolOp):
        last = _NOVAL
        for sub in e.values:
            last = rec(sub)
            if last is _NOVAL:
                return _NOVAL
            if isinstance(e.op, ast.Or) and last:
                return last
            if isinstance(e.op, ast.And) and not last:
                return last
        return last
    if isinstance(e, ast.UnaryOp) and isinstance(e.op, ast.Not):
        v = rec(e.operand)
        return _NOVAL if v is _NOVAL else (not v)
    if isinstance(e, ast.IfExp):
        t = rec(e.test)
        if t is _NOVAL:
            return _NOVAL
        return rec(e.body if t else e.orelse)
    if isinstance(e, ast.Call) and isinstance(e.func, ast.Name) and \
            e.func.id == 'bool' and len(e.args) == 1 and not e.keywords:
        v = rec(e.args[0])
        return _NOVAL if v is _NOVAL else bool(v)
    if isinstance(e, ast.Call) and keys:
        hr = helper_return(prog, f, e, keys)
        if hr is not None:
            return value_under(prog, hr[0], hr[1], hr[2], None, None)
        return _NOVAL
    if isinstance(e, ast.Compare) and len(e.ops) == 1:
        a = rec(e.left)
        b = rec(e.comparators[0])
        if a is _NOVAL or b is _NOVAL:
            return _NOVAL
        op = e.ops[0]
        try:
            if isinstance(op, ast.Eq):
                return a == b
            if isinstance(op, ast.NotEq):
                return a != b
            if isinstance(op, ast.In):
                return a in b
            if isinstance(op, ast.NotIn):
                return a not in b
            if isinstance(op, ast.Is) and (a is None or b is None):
                return a is b
            if isinstance(op, ast.IsNot) and (a is None or b is None):
                return a is not b
        except TypeError:
            return _NOVAL
        return _NOVAL
    if isinstance(e, (ast.Name, ast.Attribute, ast.List, ast.Tuple, ast.Set)):
        if isinstance(e, ast.Name) and (e.id in f.params or any(
                isinstance(n, ast.Name) and n.id == e.id and
                isinstance(n.ctx, ast.Store) for n in walk(f.node))):
            return _NOVAL                      # a local, not a module constant
        v = prog.fold(f.module, e, f.cls)
        return _NOVAL if v is UNKNOWN else v
    return _NOVAL


def derived_values(prog, f, env):
    """{name: (value | _NOVAL, {expressions of env it depends on})} of the
    locals of f (plain assignments only, no parameters) whose value is
    computed from the reads in `env`: `flag = bool(<read>)`, `skip = <read> !=
    C`, and names assigned in several places of which - under env - exactly
    one is not excluded by the tests it is control dependent on"""
    key = (id(f.node), tuple(sorted((k, repr(v)) for k, v in env.items())))
    hit = _DERIVED.get(key)
    if hit is not None and hit[0] is f.node:
        return hit[1]
    binds = _name_defs(f.node)
    cands = {n: [v for _, v in vs] for n, vs in binds.items()
             if n not in f.params and n not in env and
             all(k == 'assign' for k, _ in vs)}
    out = {}
    g = smap = None
    for _round in range(4):
        changed = False
        for n in sorted(cands):
            if n in out:
                continue
            vals = cands[n]
            known = set(env) | set(out)
            if not any(_reads_any(v, known) for v in vals):
                continue
            dep = set()
            for v in vals:
                for x in walk(v):
                    if isinstance(x, (ast.Name, ast.Subscript, ast.Call)):
                        u = unparse(x)
                        if u in env:
                            dep.add(u)
                        elif isinstance(x, ast.Name) and x.id in out:
                            dep |= out[x.id][1]
            changed = True
            if len(vals) == 1:
                out[n] = (value_under(prog, f, vals[0], env, out), dep)
                continue
            if g is None:
                g = cfg_of(f)
                smap = I.stmt_node_map(g)
            got, bad = [], False
            for v in vals:
                node = smap.get(id(v))
                if node is None:
                    bad = True
                    break
                excluded = undetermined = False
                for tid, lab in guards(g, node.id):
                    t = g.nodes[tid].ast
                    for x in walk(t):
                        if isinstance(x, (ast.Name, ast.Subscript, ast.Call)):
                            u = unparse(x)
                            if u in env:
                                dep.add(u)
                    tv = value_under(prog, f, t, env, out)
                    if tv is _NOVAL:
                        undetermined = True
                    elif bool(tv) != (lab == 'T'):
                        excluded = True
                if excluded:
                    continue
                if undetermined:
                    bad = True
                    break
                got.append(value_under(prog, f, v, env, out))
            if bad or not got or any(x is _NOVAL for x in got) or \
                    any(x != got[0] for x in got[1:]):
                out[n] = (_NOVAL, dep)
            else:
                out[n] = (got[0], dep)
        if not changed:
            break
    _DERIVED[key] = (f.node, out)       # (keeps the node: its id stays unique)
    return out


def pruned_edges(g, evaluate):
    """edges which are infeasible under `evaluate(atom) -> True|False|None`:
    branch edges of tests, and the 'exc'/'next' edge of an assert"""
    out = []
    for n in g.nodes:
        if n.kind == 'test':
            v = evaluate(n.ast)
            if v is not None:
                out.append((n.id, 'F' if v else 'T'))
        elif n.kind == 'stmt' and isinstance(n.ast, ast.Assert):
            v = evaluate_bool(n.ast.test, evaluate)
            if v is not None:
                out.append((n.id, 'exc' if v else 'next'))
    return out


def evaluate_bool(test, evaluate):
    """three-valued evaluation of a (non decomposed) boolean expression"""
    if isinstance(test, ast.BoolOp):
        vals = [evaluate_bool(v, evaluate) for v in test.values]
        if isinstance(test.op, ast.And):
            if any(v is False for v in vals):
                return False
            return True if all(v is True for v in vals) else None
        if any(v is True for v in vals):
            return True
        return False if all(v is False for v in vals) else None
    if isinstance(test, ast.UnaryOp) and isinstance(test.op, ast.Not):
        v = evaluate_bool(test.operand, evaluate)
        return None if v is None else not v
    return evaluate(test)


def feasible(g, start, pruned, within=None):
    """{node id: (parent id, edge)} of the nodes reachable from `start` without
    pruned edges and without back edges, optionally inside `within`"""
    pruned = set(pruned)
    parent = {start: None}
    todo = [start]
    while todo:
        n = todo.pop(0)
        for e in g.succ[n]:
            if (e.src, e.label) in pruned or e.back:
                continue
            if within is not None and e.dst not in within:
                continue
            if e.dst not in parent:
                parent[e.dst] = (n, e)
                todo.append(e.dst)
    return parent


def literals(g, parent, nid):
    out = []
    while parent.get(nid) is not None:
        src, e = parent[nid]
        n = g.nodes[src]
        if n.kind == 'test' and e.label in 'TF':
            a = short(n.ast, 70)
            out.append(a if e.label == 'T' else 'not (%s)' % a)
        nid = src
    out.reverse()
    return out


def loop_start(g, head):
    for e in g.succ[head]:
        if e.enter == head:
            return e.dst
    raise AnalysisError('loop %r has no body' % g.nodes[head])


def for_loops(g):
    return [n for n in g.nodes if n.kind == 'for']


def is_neutral(call):
    d = call_name(call)
    return any(d.startswith(p) for p in NEUTRAL_PREFIX)


def stager_attrs(prog, cls):
    """names of `self.<attr>` which hold a StagingHelper (assigned from a call
    that resolves to the class)"""
    helper = prog.cls(HELPER, 'StagingHelper')
    out = set()
    for k in prog.mro(cls):
        for f in k.methods.values():
            for n in walk(f.node):
                if isinstance(n, ast.Assign) and isinstance(n.value, ast.Call):
                    r = prog.resolve(f.module, n.value.func)
                    if r and r[0] == 'class' and r[1] is helper:
                        for t in n.targets:
                            d = dotted(t)
                            if d.startswith('self.'):
                                out.add(d)
    return out


# ------------------------------------------------------------------------------
# what a local expression holds, as far as the tarball of the client side goes
#
#   ('tmp', site)      file object from tempfile.NamedTemporaryFile / TemporaryFile
#   ('tar', X)         tarfile.open(..) object; X = shape of its fileobj= | None
#   ('rec', ((field, shape), ..))   record: R(..) of a namedtuple / NamedTuple /
#                      dataclass of the package
#   ('tup', (shape, ..))            tuple / list display
#
# flow-insensitive over the assignments of one function, through record
# constructors, tuple displays and unpacking, `with .. as`, and the return
# values of the functions / methods of the package it calls.  Which local NAME
# holds the object does not matter, only where it comes from.
#
TMP_CTORS = ('tempfile.NamedTemporaryFile', 'tempfile.TemporaryFile')
RECORD_CTORS = ('collections.namedtuple', 'typing.NamedTuple')


def record_fields(prog, module, func_expr):
    """field names (in positional order) when `func_expr` names a record type:
    R = namedtuple('R', [..] | 'a b c'), class R(NamedTuple) / @dataclass"""
    r = prog.resolve(module, func_expr)
    if r and r[0] == 'const' and len(r[2]) == 1 and \
            isinstance(r[2][0], ast.Call):
        c = r[2][0]
        x = prog.resolve(r[1], c.func)
        if x and x[0] == 'ext' and x[1] in RECORD_CTORS:
            spec = kwarg(c, 'field_names', 1) or kwarg(c, 'fields', 1)
            if isinstance(spec, ast.Constant) and isinstance(spec.value, str):
                return spec.value.replace(',', ' ').split()
            if isinstance(spec, (ast.List, ast.Tuple)):
                out = []
                for e in spec.elts:
                    if isinstance(e, (ast.Tuple, ast.List)) and e.elts:
                        e = e.elts[0]
                    if not (isinstance(e, ast.Constant) and
                            isinstance(e.value, str)):
                        return None
                    out.append(e.value)
                return out
        return None
    if r and r[0] == 'class':
        k = r[1]
        base = any((prog.resolve(k.module, b) or ('', ''))[1] ==
                   'typing.NamedTuple' for b in k.node.bases)
        deco = any('dataclass' in dotted(d.func if isinstance(d, ast.Call)
                                         else d)
                   for d in k.node.decorator_list)
        if (base or deco) and '__init__' not in k.methods:
            return [s.target.id for s in k.node.body
                    if isinstance(s, ast.AnnAssign) and
                    isinstance(s.target, ast.Name)]
    return None


def _own_nodes(fnode):
    """nodes of a function without those of nested functions / classes"""
    todo = list(fnode.body)
    while todo:
        n = todo.pop()
        yield n
        for c in ast.iter_child_nodes(n):
            if not isinstance(c, (ast.FunctionDef, ast.AsyncFunctionDef,
                                  ast.ClassDef, ast.Lambda)):
                todo.append(c)


def _join(shapes):
    """one shape of several candidates (None = nothing known): records and
    tuples are joined field by field; otherwise the first one wins"""
    shapes = [s for s in shapes if s is not None]
    if not shapes:
        return None
    a = shapes[0]
    for b in shapes[1:]:
        if a[0] == b[0] == 'rec' and [k for k, _ in a[1]] == \
                [k for k, _ in b[1]]:
            a = ('rec', tuple((k, _join([v, w])) for (k, v), (_, w)
                              in zip(a[1], b[1])))
        elif a[0] == b[0] == 'tup' and len(a[1]) == len(b[1]):
            a = ('tup', tuple(_join([v, w]) for v, w in zip(a[1], b[1])))
    return a


_shape_cache = {}


def _bindings(f):
    """{local name: [(kind, value expr, index)]} of function f: kind 'val'
    (name = value), 'elt' (name is element `index` of an unpacked value) or
    'with' (with value as name)"""
    key = id(f.node)
    if key in _shape_cache:
        return _shape_cache[key][1]
    if len(_shape_cache) > 500:
        _shape_cache.clear()
    out = {}
    for n in _own_nodes(f.node):
        if isinstance(n, ast.Assign):
            for t in n.targets:
                if isinstance(t, ast.Name):
                    out.setdefault(t.id, []).append(('val', n.value, None))
                elif isinstance(t, (ast.Tuple, ast.List)) and not any(
                        isinstance(e, ast.Starred) for e in t.elts):
                    for i, e in enumerate(t.elts):
                        if isinstance(e, ast.Name):
                            out.setdefault(e.id, []).append(
                                ('elt', n.value, i))
        elif isinstance(n, ast.AnnAssign) and n.value is not None and \
                isinstance(n.target, ast.Name):
            out.setdefault(n.target.id, []).append(('val', n.value, None))
        elif isinstance(n, (ast.With, ast.AsyncWith)):
            for it in n.items:
                if isinstance(it.optional_vars, ast.Name):
                    out.setdefault(it.optional_vars.id, []).append(
                        ('with', it.context_expr, None))
    _shape_cache[key] = (f.node, out)
    return out


def shape_of(prog, f, e, cls=None, depth=3, seen=frozenset()):
    """shape (see above) of expression `e` of function `f`, or None"""
    if isinstance(e, ast.Name):
        if (id(f.node), e.id) in seen:
            return None
        seen = seen | {(id(f.node), e.id)}
        cands = []
        for kind, v, i in _bindings(f).get(e.id, ()):
            s = shape_of(prog, f, v, cls, depth, seen)
            if kind == 'elt':
                s = s[1][i] if s and s[0] == 'tup' and i < len(s[1]) else None
            cands.append(s)
        return _join(cands)
    if isinstance(e, ast.IfExp):
        return _join([shape_of(prog, f, e.body, cls, depth, seen),
                      shape_of(prog, f, e.orelse, cls, depth, seen)])
    if isinstance(e, ast.BoolOp):
        return _join([shape_of(prog, f, v, cls, depth, seen)
                      for v in e.values])
    if isinstance(e, (ast.Tuple, ast.List)):
        if any(isinstance(x, ast.Starred) for x in e.elts):
            return None
        return ('tup', tuple(shape_of(prog, f, x, cls, depth, seen)
                             for x in e.elts))
    if isinstance(e, ast.Attribute):
        b = shape_of(prog, f, e.value, cls, depth, seen)
        if b and b[0] == 'rec':
            return dict(b[1]).get(e.attr)
        return None
    if isinstance(e, ast.Subscript):
        b = shape_of(prog, f, e.value, cls, depth, seen)
        if b and b[0] in ('tup', 'rec') and \
                isinstance(e.slice, ast.Constant) and \
                isinstance(e.slice.value, int) and \
                0 <= e.slice.value < len(b[1]):
            x = b[1][e.slice.value]
            return x[1] if b[0] == 'rec' else x
        return None
    if not isinstance(e, ast.Call):
        return None
    r = prog.resolve(f.module, e.func)
    if r and r[0] == 'ext':
        if r[1] == 'tarfile.open':
            fo = kwarg(e, 'fileobj', 2)
            return ('tar', shape_of(prog, f, fo, cls, depth, seen)
                    if fo is not None else None)
        if r[1] in TMP_CTORS:
            return ('tmp', (f.where, getattr(e, 'lineno', 0),
                            getattr(e, 'col_offset', 0)))
        return None
    fields = record_fields(prog, f.module, e.func)
    if fields is not None:
        if any(isinstance(a, ast.Starred) for a in e.args) or \
                any(k.arg is None for k in e.keywords) or \
                len(e.args) > len(fields):
            return None
        vals = {fl: None for fl in fields}
        for fl, a in zip(fields, e.args):
            vals[fl] = shape_of(prog, f, a, cls, depth, seen)
        for k in e.keywords:
            if k.arg in vals:
                vals[k.arg] = shape_of(prog, f, k.value, cls, depth, seen)
        return ('rec', tuple((fl, vals[fl]) for fl in fields))
    if depth > 0:
        callee = prog.resolve_call(f, e, cls)
        if callee is not None and callee.node is not f.node:
            rets = [n.value for n in _own_nodes(callee.node)
                    if isinstance(n, ast.Return) and n.value is not None]
            return _join([shape_of(prog, callee, v, cls, depth - 1, seen)
                          for v in rets])
    return None


def holds(shape, what):
    """shape is `what` or a record / tuple with a part that is"""
    if shape is None:
        return False
    if shape == what:
        return True
    if shape[0] == 'rec':
        return any(holds(v, what) for _, v in shape[1])
    if shape[0] == 'tup':
        return any(holds(v, what) for v in shape[1])
    return False


def is_tar(prog, f, e, cls=None):
    s = shape_of(prog, f, e, cls)
    return bool(s) and s[0] == 'tar'


# ------------------------------------------------------------------------------
# skip conditions: tests not decided by the action with one branch from which
# the staging effect is reachable and one from which it is not
#
def skip_edges(stager, f, g, par, pruned, body, eff_ids, classify=True):
    """[(test cfg node, label of the skipping edge)]"""
    pr = set(pruned)
    after = set()
    for e in eff_ids:
        after |= set(feasible(g, e, pruned, within=body)) - {e}
    out = []
    for nid in sorted(par):
        n = g.nodes[nid]
        if n.kind != 'test' or nid in after:
            continue
        outs = [e for e in g.succ[nid] if e.label in ('T', 'F')
                and (nid, e.label) not in pr]
        if len(outs) < 2:
            continue                      # decided by the action itself
        can = {}
        for e in outs:
            if e.dst not in body:
                can[e.label] = (False, set())
            else:
                r = set(feasible(g, e.dst, pruned, within=body))
                can[e.label] = (bool(r & eff_ids), r)
        if can['T'][0] == can['F'][0]:
            continue
        lab = 'T' if not can['T'][0] else 'F'
        # a branch which only ends in a raise refuses the directive, it does
        # not skip it
        edge = [e for e in outs if e.label == lab][0]
        normal = edge.dst not in body
        for r in can[lab][1]:
            for e2 in g.succ[r]:
                # leaving the body (the loop head is not part of it) other
                # than by an exception: continue, fall through, break, return
                if e2.label != 'exc' and (r, e2.label) not in pr and \
                        e2.dst not in body:
                    normal = True
        if not normal:
            continue
        if classify:
            # the skipping branch must be understood: a call which cannot be
            # classified may be the staging operation
            for r in sorted(can[lab][1]):
                for c in I.stmt_calls(g.nodes[r]):
                    if stager.classify(c, f) == 'unknown':
                        raise AnalysisError(
                            'UNRECOGNISED-IDIOM %s: the branch taken when `%s` '
                            'is %s reaches no known staging operation, but '
                            'calls `%s` which the recogniser cannot classify'
                            % (f.where, short(n.ast, 50), lab == 'T',
                               short(c, 50)))
        out.append((n, lab))
    return out


def is_tar_name_test(atom):
    """`<name of the target> ==/!= '<..>.tar' % ..`: tells the directive
    which the client side stager added for its tarball from the directives
    which were packed into it (F06 repair)"""
    return isinstance(atom, ast.Compare) and len(atom.ops) == 1 and \
        isinstance(atom.ops[0], (ast.Eq, ast.NotEq)) and any(
            isinstance(n, ast.Constant) and isinstance(n.value, str) and
            n.value.endswith('.tar') for n in walk(atom))


def _with_loops(f, key):
    """a FuncInfo over a copy of `f` in which `L = [.. for sd in IT if C]` is
    written as the loop it abbreviates (`L = list()` / `for sd in IT: if C:
    L.append(..)`), when such a comprehension iterates over the task's `key`
    directives; None when there is none"""
    import copy
    from ..model import FuncInfo
    from ..normalize import desugar_comprehensions
    hit = False
    for n in walk(f.node):
        if isinstance(n, ast.Assign) and isinstance(n.value, ast.ListComp) \
                and len(n.value.generators) == 1:
            it = n.value.generators[0].iter
            if any(isinstance(x, ast.Constant) and x.value == key
                   for x in walk(it)) or isinstance(it, ast.Name):
                hit = True
    if not hit:
        return None
    node = copy.deepcopy(f.node)
    if not desugar_comprehensions(node):
        return None
    return FuncInfo(f.name, f.qual, f.module, f.cls, node, parent=f.parent)


# ------------------------------------------------------------------------------
# stager model: intake filter and handler
#
class Stager:

    def __init__(self, prog, spec):
        (self.label, self.rel, cname, mname, self.key, self.side) = spec
        self.prog = prog
        self.cls  = prog.cls(self.rel, cname)
        self.work = prog.method(self.rel, cname, mname)
        self.g    = cfg_of(self.work)
        self.smap = I.stmt_node_map(self.g)
        try:
            self._intake()
        except AnalysisError:
            # `L = [sd for sd in <..>[key] if <filter>]`: the same filter
            # written as a comprehension - decided on a private copy of the
            # method in which the comprehension is the loop it abbreviates
            alt = _with_loops(self.work, self.key)
            if alt is None:
                raise
            self.work = alt
            self.g    = cfg_of(alt)
            self.smap = I.stmt_node_map(self.g)
            self._intake()
        self._handler()

    # intake: `for sd in <..>['input_staging' | 'output_staging']...:` with an
    # `L.append(sd)` inside
    def _intake(self):
        f, g = self.work, self.g
        self.loop = None
        single = {}
        for n in walk(f.node):
            if isinstance(n, ast.Assign) and len(n.targets) == 1 and \
                    isinstance(n.targets[0], ast.Name):
                single.setdefault(n.targets[0].id, []).append(n.value)
        for h in for_loops(g):
            it = h.ast.iter
            if isinstance(it, ast.Name) and len(single.get(it.id, [])) == 1:
                # sds = task['description'].get('input_staging', [])
                it = single[it.id][0]
            if any(isinstance(n, ast.Constant) and n.value == self.key
                   for n in walk(it)) and isinstance(h.ast.target, ast.Name):
                self.loop = h
        if self.loop is None:
            raise AnalysisError('UNRECOGNISED-IDIOM %s: no loop over the '
                                'task\'s %r directives' % (f.where, self.key))
        self.sd = self.loop.ast.target.id
        body = g.loop_body[self.loop.id]
        self.appends = []
        self.list = None
        for c in calls_in(self.loop.ast):
            if isinstance(c.func, ast.Attribute) and c.func.attr == 'append' \
                    and len(c.args) == 1 and isinstance(c.args[0], ast.Name) \
                    and c.args[0].id == self.sd and \
                    isinstance(c.func.value, ast.Name):
                n = self.smap.get(id(c))
                if n is not None and n.id in body:
                    self.appends.append(n)
                    self.list = c.func.value.id
        if not self.appends:
            raise AnalysisError('UNRECOGNISED-IDIOM %s: the directive loop '
                                'does not collect directives with '
                                '<list>.append(%s)' % (f.where, self.sd))
        self.intake_exprs = key_exprs(self.loop.ast, 'action')
        for kind, target, stmt in I.stores(self.loop.ast):
            if unparse(target) in self.intake_exprs:
                raise AnalysisError('UNRECOGNISED-IDIOM %s: the intake loop '
                                    'rewrites the action' % f.where)

    def admits(self, value):
        memo = self.__dict__.setdefault('_memo_admits', {})
        if value not in memo:
            memo[value] = self._admits(value)
        return memo[value]

    def _admits(self, value):
        """(admitted?, parent map) for a directive with this action"""
        f, g = self.work, self.g
        ev = lambda atom: eval_const_atom(self.prog, f, atom,
                                          self.intake_exprs, value)
        par = feasible(g, loop_start(g, self.loop.id), pruned_edges(g, ev),
                       within=g.loop_body[self.loop.id])
        hit = [n for n in self.appends if n.id in par]
        return bool(hit), par

    def intake_skips(self, value):
        """conditions other than the action under which an admitted directive
        is not collected"""
        f, g = self.work, self.g
        ev = lambda atom: eval_const_atom(self.prog, f, atom,
                                          self.intake_exprs, value)
        pruned = pruned_edges(g, ev)
        body = g.loop_body[self.loop.id]
        par = feasible(g, loop_start(g, self.loop.id), pruned, within=body)
        eff = {n.id for n in self.appends if n.id in par}
        if not eff:
            return []
        return skip_edges(self, f, g, par, pruned, body, eff, classify=False)

    # handler: the method which `work` calls with the collected list
    def _handler(self):
        f = self.work
        names = {self.list}
        # the list travels as element i of a record: C.append([task, L]) ...
        # for task, X in C: X aliases L
        for c in calls_in(f.node):
            if isinstance(c.func, ast.Attribute) and c.func.attr == 'append' \
                    and len(c.args) == 1 and \
                    isinstance(c.args[0], (ast.List, ast.Tuple)):
                elts = c.args[0].elts
                pos = [i for i, e in enumerate(elts)
                       if isinstance(e, ast.Name) and e.id == self.list]
                cont = root_name(c.func.value)
                if not pos or cont is None:
                    continue
                for n in walk(f.node):
                    if isinstance(n, ast.For) and root_name(n.iter) == cont \
                            and isinstance(n.target, (ast.Tuple, ast.List)) \
                            and len(n.target.elts) == len(elts) and \
                            isinstance(n.target.elts[pos[0]], ast.Name):
                        names.add(n.target.elts[pos[0]].id)
        self.handler = None
        self.param   = None
        for c in calls_in(f.node):
            callee = self.prog.resolve_call(f, c, self.cls)
            if callee is None or callee.cls is None or is_neutral(c):
                continue
            params = [p for p in callee.params if p != 'self']
            for i, a in enumerate(c.args):
                if isinstance(a, ast.Name) and a.id in names and \
                        i < len(params):
                    self.handler, self.param = callee, params[i]
            for k in c.keywords:
                if isinstance(k.value, ast.Name) and k.value.id in names and \
                        k.arg in params:
                    self.handler, self.param = callee, k.arg
        if self.handler is None:
            raise AnalysisError('UNRECOGNISED-IDIOM %s: the collected list %r '
                                'is not passed to a method of the stager'
                                % (f.where, self.list))
        self.hg    = cfg_of(self.handler)
        self.hsmap = I.stmt_node_map(self.hg)
        self.stagers = stager_attrs(self.prog, self.cls)
        if not self.stagers:
            raise AnalysisError('%s: no attribute holds a StagingHelper'
                                % self.cls.where)

    def derived(self, name):
        """names which hold (a transformation of) list `name`"""
        out = {name}
        changed = True
        while changed:
            changed = False
            for n in walk(self.handler.node):
                if isinstance(n, ast.Assign) and isinstance(n.value, ast.Call) \
                        and any(isinstance(a, ast.Name) and a.id in out
                                for a in n.value.args):
                    for t in n.targets:
                        if isinstance(t, ast.Name) and t.id not in out:
                            out.add(t.id)
                            changed = True
        return out

    def classify(self, c, f=None, depth=2):
        """('helper'|'op'|'tar'|'fs'|'self', call) for a call with a staging
        effect, 'neutral' / 'pure' for calls known to have none, else
        'unknown'"""
        f = f or self.handler
        if is_neutral(c):
            return 'neutral'
        d = call_name(c)
        if isinstance(c.func, ast.Attribute):
            recv = dotted(c.func.value)
            if recv in self.stagers:
                helper = self.prog.cls(HELPER, 'StagingHelper')
                if self.prog.find_method(helper, c.func.attr) is None:
                    raise AnalysisError('%s calls StagingHelper.%s which does '
                                        'not exist' % (f.where, c.func.attr))
                if c.func.attr == 'handle_staging_directive':
                    return ('helper', c)
                return ('op', c)
            if is_tar(self.prog, f, c.func.value, self.cls) or (
                    f is not self.handler and
                    is_tar(self.prog, self.handler, c.func.value, self.cls)):
                if c.func.attr in ('add', 'extractall', 'extract'):
                    return ('tar', c)
                return 'pure'
            r = self.prog.resolve(f.module, c.func)
            if r and r[0] == 'ext':
                if r[1].startswith('shutil.') or r[1] in FS_EFFECTS:
                    return ('fs', c)
                if any(r[1].startswith(p) for p in PURE_EXT):
                    return 'pure'
            if c.func.attr in PURE_METHODS and recv not in ('self',):
                return 'pure'
        elif isinstance(c.func, ast.Name) and c.func.id in PURE_BUILTINS:
            return 'pure'
        if record_fields(self.prog, f.module, c.func) is not None:
            return 'pure'                 # builds a record, nothing else
        callee = self.prog.resolve_call(f, c, self.cls)
        if callee is not None:
            if callee.module.rel == SD:
                return 'pure'
            if callee.cls is not None and depth > 0:
                kinds = [self.classify(c2, callee, depth - 1)
                         for c2 in calls_in(callee.node)]
                if any(isinstance(k, tuple) for k in kinds):
                    return ('self', c)
                if all(k in ('pure', 'neutral') for k in kinds):
                    # a method of the stager which only computes
                    return 'pure'
        return 'unknown'

    def directive_loops(self):
        """`for sd in L` loops of the handler over the collected directives,
        lists derived from them and lists they are handed over to"""
        names = self.derived(self.param)
        out = []
        for _ in range(3):
            for n in walk(self.handler.node):
                if isinstance(n, ast.For) and isinstance(n.iter, ast.Name) \
                        and n.iter.id in names and \
                        isinstance(n.target, ast.Name) and n not in out:
                    out.append(n)
                    for c in calls_in(n):
                        if isinstance(c.func, ast.Attribute) and \
                                c.func.attr == 'append' and \
                                len(c.args) == 1 and \
                                isinstance(c.args[0], ast.Name) and \
                                c.args[0].id == n.target.id and \
                                isinstance(c.func.value, ast.Name):
                            names |= self.derived(c.func.value.id)
        return out

    def effect_of(self, node):
        """staging effect of a cfg node: (kind, call) or None"""
        for c in I.stmt_calls(node):
            k = self.classify(c)
            if isinstance(k, tuple):
                return k
        return None

    def handles(self, value, listname=None, depth=0):
        key = (value, listname, depth)
        memo = self.__dict__.setdefault('_memo_handles', {})
        if key not in memo:
            memo[key] = self._handles(value, listname, depth)
        return memo[key]

    def _handles(self, value, listname=None, depth=0):
        """what happens to a directive with action `value` in the handler:
        {'effects': [(kind, call, cfg node)], 'trace': [literals of one path
        which ends without effect], 'dead': [tests on this action which are
        never reached]}"""
        f, g = self.handler, self.hg
        names = self.derived(listname or self.param)
        loops = [h for h in for_loops(g) if isinstance(h.ast.iter, ast.Name)
                 and h.ast.iter.id in names and
                 isinstance(h.ast.target, ast.Name)]
        if not loops:
            raise AnalysisError('UNRECOGNISED-IDIOM %s: no loop over the '
                                'directives %s' % (f.where, sorted(names)))
        res = {'effects': [], 'trace': None, 'dead': [], 'skips': []}
        for h in loops:
            sdv = h.ast.target.id
            body = g.loop_body[h.id]
            exprs = {e for e in key_exprs(h.ast, 'action')
                     if e.isidentifier() or root_name(
                         ast.parse(e, mode='eval').body) == sdv}
            for kind, target, stmt in I.stores(h.ast):
                if unparse(target) in exprs:
                    raise AnalysisError('UNRECOGNISED-IDIOM %s: the handler '
                                        'loop rewrites the action' % f.where)
            ev = lambda atom: eval_const_atom(self.prog, f, atom, exprs, value)
            pruned = pruned_edges(g, ev)
            par = feasible(g, loop_start(g, h.id), pruned, within=body)
            found = False
            eff_ids = set()
            for nid in sorted(par):
                n = g.nodes[nid]
                eff = self.effect_of(n)
                if eff:
                    res['effects'].append((eff[0], eff[1], n))
                    eff_ids.add(nid)
                    found = True
                    continue
                # hand-over into another list which a later loop works on
                for c in I.stmt_calls(n):
                    if isinstance(c.func, ast.Attribute) and \
                            c.func.attr == 'append' and len(c.args) == 1 and \
                            isinstance(c.args[0], ast.Name) and \
                            c.args[0].id == sdv and \
                            isinstance(c.func.value, ast.Name) and \
                            c.func.value.id not in names and depth < 2:
                        sub = self.handles(value, c.func.value.id, depth + 1)
                        res['effects'] += sub['effects']
                        res['skips'] += sub['skips']
                        if sub['effects']:
                            eff_ids.add(nid)
                            found = True
            if found:
                res['skips'] += skip_edges(self, f, g, par, pruned, body,
                                           eff_ids)
            if not found:
                # "skipped" must be told from "not understood": any call on
                # these paths which is neither logging nor known to be pure
                # stops the analysis instead of raising an alarm
                for nid in sorted(par):
                    for c in I.stmt_calls(g.nodes[nid]):
                        if self.classify(c) == 'unknown':
                            raise AnalysisError(
                                'UNRECOGNISED-IDIOM %s: for action %r the '
                                'directive loop reaches no known staging '
                                'operation, but calls `%s` which the '
                                'recogniser cannot classify'
                                % (f.where, value, short(c, 60)))
                # one witness: the last node of the body reached
                ends = [nid for nid in par if any(
                    (e.back and e.dst == h.id) for e in g.succ[nid])]
                if ends:
                    res['trace'] = literals(g, par, ends[0])
                for n in g.nodes:
                    if n.kind == 'test' and n.id in body and n.id not in par:
                        cc = const_compare(self.prog, f.module, n.ast, f.cls)
                        if cc and cc[0] in exprs and cc[1] == 'in' and \
                                value in cc[2]:
                            res['dead'].append(n)
        return res


_stagers = {}


def stagers(prog):
    if id(prog) not in _stagers:
        _stagers.clear()
        _stagers[id(prog)] = [Stager(prog, s) for s in STAGERS]
    return _stagers[id(prog)]


# ------------------------------------------------------------------------------
# helper model (R11.3): which actions handle_staging_directive accepts and
# which facade operation it runs for each
#
def helper_table(prog):
    """{action value: ('raise', None) | ('silent', None) | ('op', [names])}"""
    f = prog.method(HELPER, 'StagingHelper', 'handle_staging_directive')
    g = cfg_of(f)
    params = [p for p in f.params if p != 'self']
    if not params:
        raise AnalysisError('%s has no directive parameter' % f.where)
    exprs = {e for e in key_exprs(f.node, 'action')
             if e.isidentifier() or e.startswith(params[0])}
    if not exprs:
        raise AnalysisError('UNRECOGNISED-IDIOM %s does not read the '
                            'directive\'s action' % f.where)
    helper = prog.cls(HELPER, 'StagingHelper')
    # dispatch tables: D = {ACTION: self.<op>, ..};  h = D.get(action) / D[..]
    maps, picks = {}, {}
    for n in walk(f.node):
        if isinstance(n, ast.Assign) and len(n.targets) == 1 and \
                isinstance(n.targets[0], ast.Name) and \
                isinstance(n.value, ast.Dict) and n.value.keys:
            m = {}
            for k, v in zip(n.value.keys, n.value.values):
                kv = prog.fold(f.module, k, f.cls) if k is not None \
                    else UNKNOWN
                d = dotted(v)
                if kv is UNKNOWN or not (d.startswith('self.') and
                                         d.count('.') == 1):
                    m = None
                    break
                m[kv] = d[5:]
            if m:
                maps[n.targets[0].id] = m

    def pick_of(e):
        """(map name, may be missing?) if e selects from a dispatch table by
        the action"""
        if isinstance(e, ast.Call) and isinstance(e.func, ast.Attribute) and \
                e.func.attr == 'get' and isinstance(e.func.value, ast.Name) \
                and e.func.value.id in maps and len(e.args) == 1 and \
                unparse(e.args[0]) in exprs:
            return e.func.value.id, True
        if isinstance(e, ast.Subscript) and isinstance(e.value, ast.Name) and \
                e.value.id in maps and unparse(e.slice) in exprs:
            return e.value.id, False
        return None
    for n in walk(f.node):
        if isinstance(n, ast.Assign) and len(n.targets) == 1 and \
                isinstance(n.targets[0], ast.Name) and pick_of(n.value):
            picks[n.targets[0].id] = pick_of(n.value)
    table = {}
    for name, value in action_values(prog).items():
        def ev(atom, value=value):
            if isinstance(atom, ast.Name) and atom.id in picks:
                return value in maps[picks[atom.id][0]]
            if isinstance(atom, ast.Compare) and len(atom.ops) == 1 and \
                    isinstance(atom.ops[0], (ast.Is, ast.IsNot)) and \
                    isinstance(atom.left, ast.Name) and atom.left.id in picks \
                    and isinstance(atom.comparators[0], ast.Constant) and \
                    atom.comparators[0].value is None:
                missing = value not in maps[picks[atom.left.id][0]]
                return missing == isinstance(atom.ops[0], ast.Is)
            return eval_const_atom(prog, f, atom, exprs, value)
        pruned = pruned_edges(g, ev)
        # an index into the table with an action it does not have raises
        for n in g.nodes:
            if n.kind == 'stmt' and n.ast is not None:
                for x in walk(n.ast):
                    pk = pick_of(x) if isinstance(x, ast.Subscript) else None
                    if pk and value not in maps[pk[0]]:
                        pruned.append((n.id, 'next'))
        par = feasible(g, g.entry.id, pruned)
        ops = []
        for nid in par:
            for c in I.stmt_calls(g.nodes[nid]):
                d = call_name(c)
                if d.startswith('self.') and d.count('.') == 1 and \
                        not is_neutral(c) and \
                        prog.find_method(helper, d[5:]) is not None:
                    ops.append(d[5:])
                # a call of the selected handler
                pk = None
                if isinstance(c.func, ast.Name) and c.func.id in picks:
                    pk = picks[c.func.id]
                elif pick_of(c.func):
                    pk = pick_of(c.func)
                if pk is not None and value in maps[pk[0]] and \
                        prog.find_method(helper, maps[pk[0]][value]) \
                        is not None:
                    ops.append(maps[pk[0]][value])
        if g.exit.id not in par:
            table[value] = ('raise', None)
        elif ops:
            table[value] = ('op', sorted(set(ops)))
        else:
            table[value] = ('silent', None)
    return f, table


# ------------------------------------------------------------------------------
# R11.1  admitted => handled
#
def r11_1(prog, rep, rid='R11.1'):
    rep.rule(rid, 'every action a stager\'s intake filter admits reaches a '
             'staging effect in its handler and is accepted by the helper it '
             'is passed to (one obligation per stager and action)',
             minimum=24)
    acts = action_values(prog)
    hf, table = helper_table(prog)
    for s in stagers(prog):
        rep.saw(s.work)
        rep.saw(s.handler)
        rep.stat('cfg_nodes', len(s.g.nodes) + len(s.hg.nodes))
        n_adm = 0
        for name, value in acts.items():
            if not s.admits(value)[0]:
                rep.ok(rid, s.handler, '%s: %s is not admitted by %s (nothing '
                       'to show)' % (s.label, name, s.work.qual),
                       s.work.loc(s.loop.ast))
                continue
            n_adm += 1
            r = s.handles(value)
            what = '%s: %s directives (%s) admitted by %s reach a staging ' \
                   'effect in %s' % (s.label, name, s.key, s.work.qual,
                                     s.handler.qual)
            if not r['effects']:
                dead = ''
                if r['dead']:
                    dead = '; the branch `%s` which would handle it is never ' \
                           'reached' % short(r['dead'][0].ast, 60)
                rep.bad(rid, s.handler, 'action=%s' % value,
                        '%s stager: %s admits %s directives with action %r, '
                        'but %s performs no staging operation for them: every '
                        'path of the directive loop ends without a helper / '
                        'tar call%s' % (s.label, s.work.qual, s.key, value,
                                        s.handler.qual, dead),
                        s.handler.loc(r['dead'][0].ast if r['dead'] else None),
                        history='a task with %s=[{source: a, target: b, '
                        'action: %s}]: the directive is taken by this stager, '
                        'skipped (%s), and the task is advanced as if it had '
                        'been staged' % (s.key, name,
                                         ' and '.join(r['trace'] or ['-'])),
                        path=r['trace'])
                continue
            # what is given to the helper must be accepted by the helper
            to_helper = [call for kind, call, node in r['effects']
                         if kind == 'helper']
            verdict = table.get(value, ('raise', None))[0]
            if to_helper and verdict != 'op':
                rep.bad(rid, s.handler, 'helper:%s' % value,
                        '%s stager: %s passes %s directives to '
                        'StagingHelper.handle_staging_directive, which %s '
                        'for action %r' % (
                            s.label, s.handler.qual, name,
                            'raises (assert)' if verdict == 'raise' else
                            'does nothing', value),
                        s.handler.loc(to_helper[0]),
                        history='a task with a %s directive in %s fails in '
                        'this stager (or is silently not staged)'
                        % (name, s.key))
                continue
            rep.ok(rid, s.handler, what, s.handler.loc(r['effects'][0][1]))
        if not n_adm:
            raise AnalysisError('%s: the intake filter of %s admits no action'
                                % (rid, s.work.where))


# ------------------------------------------------------------------------------
# R11.1b  admitted directives are not skipped under other conditions
#
def r11_1b(prog, rep, rid='R11.1b'):
    rep.rule(rid, 'an admitted directive is carried out on every path through '
             'one loop iteration: the only tests which may lead past the '
             'staging operation are tests of the action itself (and the '
             'tarball-name test of TARBALL directives); one obligation per '
             'stager and action', minimum=24)
    acts = action_values(prog)
    tarball = acts['TARBALL']
    for s in stagers(prog):
        found = {}            # (where, cond) -> [actions]
        per_action = {}
        for name, value in acts.items():
            if not s.admits(value)[0]:
                per_action[name] = None
                continue
            sk = [(s.work, n, lab) for n, lab in s.intake_skips(value)]
            sk += [(s.handler, n, lab) for n, lab in
                   s.handles(value)['skips']]
            bad = []
            for fn, n, lab in sk:
                if value == tarball and is_tar_name_test(n.ast):
                    rep.info(rid, fn, '%s: TARBALL directives are skipped '
                             'when `%s` is %s (the tarball is unpacked once, '
                             'for the directive which names it)'
                             % (s.label, short(n.ast, 60), lab == 'T'))
                    continue
                cond = short(n.ast, 80) if lab == 'T' else \
                    'not (%s)' % short(n.ast, 80)
                bad.append((fn, n, cond))
                found.setdefault((fn.where, cond), []).append(name)
            per_action[name] = bad
        for name, bad in per_action.items():
            if bad is None:
                rep.ok(rid, s.handler, '%s: %s is not admitted (nothing to '
                       'show)' % (s.label, name), s.work.loc(s.loop.ast))
            elif not bad:
                rep.ok(rid, s.handler, '%s: %s directives are carried out on '
                       'every path of the directive loop (or the stager '
                       'raises)' % (s.label, name), s.handler.loc())
            for fn, n, cond in bad or []:
                names = found[(fn.where, cond)]
                rep.bad(rid, fn, 'skipped under: %s' % cond,
                        '%s stager: admitted directive skipped under `%s`: '
                        '%s directives which %s admits are passed over in %s '
                        'without a staging operation and without an error '
                        'when this condition holds, although the condition '
                        'is not a property of the action' % (
                            s.label, cond, '/'.join(names), s.work.qual,
                            fn.qual), fn.loc(n.ast),
                        history='a task with %s=[{source: a, target: b, '
                        'action: %s}] for which `%s` holds: the directive is '
                        'not carried out (the target keeps whatever it '
                        'held) and the task is advanced as staged'
                        % (s.key, names[0], cond))


# ------------------------------------------------------------------------------
# R11.2  coverage: client and agent stager together take every action
#
def r11_2(prog, rep, rid='R11.2'):
    rep.rule(rid, 'every action is taken by the client-side or the agent-side '
             'stager of its direction; the action constants are distinct',
             minimum=11)
    acts = action_values(prog)
    vals = list(acts.values())
    rep.check(len(set(vals)) == len(vals) and all(
        isinstance(v, str) and v for v in vals), rid, 'constants.py',
        'the six staging action constants are distinct non-empty strings',
        construct='action constants',
        message='staging action constants are not pairwise distinct: %s: '
        'directives of one kind are treated as another' % acts)
    for key, names in COVER.items():
        group = [s for s in stagers(prog) if s.key == key]
        for name in names:
            takers = [s.label for s in group if s.admits(acts[name])[0]]
            rep.check(bool(takers), rid, group[0].work,
                      '%s: action %s is taken by %s' % (key, name,
                                                        ', '.join(takers)),
                      construct='%s:%s' % (key, acts[name]),
                      message='no stager takes %s directives with action %r: '
                      'neither %s admits it in its intake filter' % (
                          key, acts[name], ' nor '.join(
                              s.work.where for s in group)),
                      loc=group[0].work.loc(group[0].loop.ast),
                      history='a task with %s=[{source: a, target: b, action: '
                      '%s}] runs through both stagers and the directive is '
                      'never carried out' % (key, name))
        if key == 'output_staging':
            for name in ACTIONS:
                if name not in names and not any(
                        s.admits(acts[name])[0] for s in group):
                    rep.info(rid, group[0].work, 'observation: %s directives '
                             'with action %s are taken by no stager (not '
                             'claimed: the action has no output meaning)'
                             % (key, name))


# ------------------------------------------------------------------------------
# R11.3  handle_staging_directive: accepted set = handled set
#
def r11_3(prog, rep, rid='R11.3'):
    rep.rule(rid, 'handle_staging_directive: every action it accepts runs a '
             'facade operation (the one named like the action, if there is '
             'one); every facade operation delegates to the same-named backend '
             'operation', minimum=18)
    acts = action_values(prog)
    f, table = helper_table(prog)
    rep.saw(f)
    helper = prog.cls(HELPER, 'StagingHelper')
    n_acc = 0
    for name, value in acts.items():
        verdict, ops = table[value]
        own = name.lower()
        has_own = prog.find_method(helper, own) is not None
        if verdict == 'raise':
            rep.ok(rid, f, 'action %s is refused (assert)' % name, f.loc())
            if has_own:
                rep.ok(rid, f, 'action %s is refused: no operation to compare'
                       % name, f.loc())
            continue
        n_acc += 1
        rep.check(verdict == 'op', rid, f,
                  'accepted action %s runs %s' % (name, ops),
                  construct='accepted:%s' % value,
                  message='handle_staging_directive accepts action %r '
                  '(the assert passes) but no branch handles it: the '
                  'call returns without any operation' % value,
                  loc=f.loc(),
                  history='a directive with action %s is reported as '
                  'staged although nothing was done' % name)
        if has_own:
            rep.check(verdict != 'op' or ops == [own], rid, f,
                      'action %s runs self.%s' % (name, own),
                      construct='op:%s' % value,
                      message='handle_staging_directive runs %s for action %r '
                      'although the facade has the operation %r'
                      % (ops, value, own), loc=f.loc(),
                      history='a %s directive is carried out as %s'
                      % (name, '/'.join(ops or [])))
    if not n_acc:
        raise AnalysisError('%s: handle_staging_directive accepts no action'
                            % rid)
    # facade -> backend delegation
    for mname, m in sorted(helper.methods.items()):
        for c in calls_in(m.node):
            d = call_name(c)
            if d.startswith('self._backend.'):
                rep.saw(m)
                rep.check(d == 'self._backend.' + mname, rid, m,
                          'StagingHelper.%s delegates to backend.%s'
                          % (mname, mname), construct=c,
                          message='StagingHelper.%s delegates to %s: the '
                          'operation carried out is not the one asked for'
                          % (mname, d), loc=m.loc(c),
                          history='%s(src, tgt) runs the backend\'s %s'
                          % (mname, d.split('.')[-1]))


# ------------------------------------------------------------------------------
# R11.4  backend completeness
#
def _has_effect(m):
    """the method body does something besides asserting / logging: a call (not
    self._log.*) or a raise outside of assert statements"""
    def rec(stmts):
        for s in stmts:
            if isinstance(s, ast.Assert):
                continue
            if isinstance(s, ast.Raise):
                return True
            if isinstance(s, (ast.FunctionDef, ast.ClassDef,
                              ast.AsyncFunctionDef)):
                continue
            if isinstance(s, (ast.If, ast.For, ast.While, ast.With, ast.Try)):
                heads = []
                if isinstance(s, (ast.If, ast.While)):
                    heads = [s.test]
                elif isinstance(s, ast.For):
                    heads = [s.iter]
                elif isinstance(s, ast.With):
                    heads = [i.context_expr for i in s.items]
                for hd in heads:
                    if any(not is_neutral(c) for c in calls_in(hd)):
                        return True
                for part in ('body', 'orelse', 'finalbody'):
                    if rec(getattr(s, part, []) or []):
                        return True
                for h in getattr(s, 'handlers', []) or []:
                    if rec(h.body):
                        return True
                continue
            if any(not is_neutral(c) for c in calls_in(s)):
                return True
        return False
    return rec(m.node.body)


def r11_4(prog, rep, rid='R11.4'):
    rep.rule(rid, 'each staging backend implements every operation the facade '
             'delegates to, with a body that has an effect or raises',
             minimum=16)
    helper = prog.cls(HELPER, 'StagingHelper')
    init = prog.find_method(helper, '__init__')
    backends = []
    for k in prog.mro(helper):
        for m in k.methods.values():
            for n in walk(m.node):
                if isinstance(n, ast.Assign) and any(
                        dotted(t) == 'self._backend' for t in n.targets) and \
                        isinstance(n.value, ast.Call):
                    r = prog.resolve(m.module, n.value.func)
                    if r and r[0] == 'class':
                        if r[1] not in backends:
                            backends.append(r[1])
                    else:
                        raise AnalysisError(
                            'UNRECOGNISED-IDIOM %s: backend `%s` is not a '
                            'class of the package' % (m.where,
                                                      short(n.value, 50)))
    if len(backends) < 2:
        raise AnalysisError('%s: only %d staging backend(s) found'
                            % (rid, len(backends)))
    delegated = set()
    for m in helper.methods.values():
        for c in calls_in(m.node):
            d = call_name(c)
            if d.startswith('self._backend.'):
                delegated.add(d.split('.')[-1])
                # R11.3 asks the facade to delegate to the same name; the
                # backends are asked for the facade's name in any case
                delegated.add(m.name)
    for b in backends:
        for op in sorted(delegated):
            m = prog.find_method(b, op)
            if m is None:
                rep.bad(rid, b.where, 'missing:%s' % op,
                        '%s does not implement %r which StagingHelper '
                        'delegates to it' % (b.name, op),
                        '%s/%s:%d' % ('src/radical/pilot', b.module.rel,
                                      b.node.lineno),
                        history='StagingHelper.%s(...) with this backend '
                        'raises AttributeError' % op)
                continue
            rep.saw(m)
            rep.check(_has_effect(m), rid, m,
                      '%s.%s has an effect or raises' % (b.name, op),
                      construct='no-op body',
                      message='%s.%s only asserts: with this backend '
                      'StagingHelper.%s(...) returns without doing anything '
                      'and without an error' % (b.name, op, op),
                      loc=m.loc(),
                      history='with radical.saga importable the helper picks '
                      '%s; a %s then silently does nothing and the task goes '
                      'on as if its data were in place' % (
                          b.name, {'link': 'LINK directive',
                                   'move': 'MOVE directive',
                                   'mkdir': 'sandbox mkdir',
                                   'rmdir': 'rmdir',
                                   'delete': 'delete'}.get(op, op)))


# ------------------------------------------------------------------------------
# R11.5  short forms: ordered dispatch by substring containment (if/elif chain
#        or loop over a constant operator table): every documented token has an
#        entry, an entry whose token is contained in the token of another entry
#        does not take precedence over it; separator, orientation and key sets
#        of the expanded directive
#
# documented redirection tokens of the string short form (docstring of
# expand_description / TaskDescription: 'src > tgt', '>>', 'tgt < src', '<<')
DOC_TOKENS = ('>>', '>', '<<', '<')

SPLITS     = {'split': 2, 'rsplit': 2, 'partition': 3, 'rpartition': 3}
KEEP_PART  = {'strip', 'lstrip', 'rstrip', 'expandtabs'}


def _local_single(f, name):
    """the value of the only assignment to the plain name in f, or None"""
    vals = [a.value for a in walk(f.node) if isinstance(a, ast.Assign) and any(
        isinstance(t, ast.Name) and t.id == name for t in a.targets)]
    other = [n for n in walk(f.node) if isinstance(n, ast.Name) and
             n.id == name and isinstance(n.ctx, (ast.Store, ast.Del))]
    if len(vals) == 1 and len(other) == 1:
        return vals[0]
    return None


def cval(prog, f, e, env):
    """value of a constant expression under `env` (names bound to constants:
    the row of a table loop), or UNKNOWN"""
    if isinstance(e, ast.Constant):
        return e.value
    if isinstance(e, ast.Name) and e.id in env:
        return env[e.id]
    if isinstance(e, (ast.Tuple, ast.List)):
        vals = [cval(prog, f, x, env) for x in e.elts]
        if any(v is UNKNOWN for v in vals):
            return UNKNOWN
        return tuple(vals) if isinstance(e, ast.Tuple) else vals
    if isinstance(e, ast.Subscript):
        b = cval(prog, f, e.value, env)
        i = cval(prog, f, e.slice, env)
        if b is UNKNOWN or i is UNKNOWN:
            return UNKNOWN
        try:
            return b[i]
        except Exception:
            return UNKNOWN
    if isinstance(e, ast.UnaryOp) and isinstance(e.op, ast.Not):
        v = cval(prog, f, e.operand, env)
        return UNKNOWN if v is UNKNOWN else (not v)
    if isinstance(e, ast.BoolOp):
        vals = [cval(prog, f, x, env) for x in e.values]
        if any(v is UNKNOWN for v in vals):
            return UNKNOWN
        out = vals[0]
        for v in vals[1:]:
            out = (out and v) if isinstance(e.op, ast.And) else (out or v)
        return out
    if isinstance(e, ast.IfExp):
        t = cval(prog, f, e.test, env)
        if t is UNKNOWN:
            return UNKNOWN
        return cval(prog, f, e.body if t else e.orelse, env)
    if isinstance(e, ast.UnaryOp) and isinstance(e.op, ast.USub):
        v = cval(prog, f, e.operand, env)
        return -v if isinstance(v, int) else UNKNOWN
    if isinstance(e, ast.BinOp) and isinstance(e.op, (ast.Add, ast.Sub)):
        l = cval(prog, f, e.left, env)
        r = cval(prog, f, e.right, env)
        if l is UNKNOWN or r is UNKNOWN:
            return UNKNOWN
        try:
            return l + r if isinstance(e.op, ast.Add) else l - r
        except Exception:
            return UNKNOWN
    if isinstance(e, ast.Compare) and len(e.ops) == 1:
        l = cval(prog, f, e.left, env)
        r = cval(prog, f, e.comparators[0], env)
        if l is UNKNOWN or r is UNKNOWN:
            return UNKNOWN
        op = e.ops[0]
        try:
            if isinstance(op, ast.Eq):    return l == r
            if isinstance(op, ast.NotEq): return l != r
            if isinstance(op, ast.Is):    return l is r
            if isinstance(op, ast.IsNot): return l is not r
            if isinstance(op, ast.In):    return l in r
            if isinstance(op, ast.NotIn): return l not in r
        except Exception:
            return UNKNOWN
        return UNKNOWN
    if isinstance(e, ast.Name):
        v = _local_single(f, e.id)
        if v is not None and not names_bound_in(f, v):
            return cval(prog, f, v, {})
    return prog.fold(f.module, e, f.cls)


def names_bound_in(f, expr):
    """does `expr` read a name which the function binds (parameter or local)?
    such a name is not a module level constant"""
    bound = set(f.params)
    for n in walk(f.node):
        if isinstance(n, ast.Name) and isinstance(n.ctx, (ast.Store, ast.Del)):
            bound.add(n.id)
    return any(isinstance(n, ast.Name) and n.id in bound for n in walk(expr))


def table_rows(prog, f, it):
    """the rows a `for` statement iterates over, if its iterable is a constant
    table (module / class constant, literal, local name bound once to one;
    reversed(T), enumerate(T), T.items() / .keys() / .values()); else None"""
    if isinstance(it, ast.Call) and not it.keywords:
        fn = dotted(it.func)
        if fn in ('reversed', 'list', 'tuple', 'enumerate') and \
                len(it.args) == 1:
            rows = table_rows(prog, f, it.args[0])
            if rows is None:
                return None
            if fn == 'reversed':
                return list(reversed(rows))
            if fn == 'enumerate':
                return list(enumerate(rows))
            return rows
        if isinstance(it.func, ast.Attribute) and not it.args and \
                it.func.attr in ('items', 'keys', 'values'):
            d = cval(prog, f, it.func.value, {})
            if isinstance(d, dict):
                return list(getattr(d, it.func.attr)())
        return None
    v = cval(prog, f, it, {})
    if isinstance(v, dict):
        return list(v)
    if isinstance(v, (list, tuple)):
        return list(v)
    return None


def bind_row(target, value, env):
    """bind the constants of one table row to the names of a loop target"""
    if isinstance(target, ast.Name):
        env[target.id] = value
        return True
    if isinstance(target, (ast.Tuple, ast.List)) and \
            isinstance(value, (list, tuple)) and \
            len(value) == len(target.elts):
        return all(bind_row(t, v, env) for t, v in zip(target.elts, value))
    return False


class TokEntry:
    """one entry of the short-form dispatch: the test `tok in var` (cfg node,
    label of the edge taken on a match), and for an entry of a table loop the
    loop head, the row number and the constants the row binds"""

    def __init__(self, tok, var, node, match, loop=None, row=None, env=None):
        self.tok, self.var, self.node, self.match = tok, var, node, match
        self.loop, self.row, self.env = loop, row, env or {}
        self.miss = 'F' if match == 'T' else 'T'


def token_entries(prog, f, g):
    """entries of the ordered dispatch by substring containment in f: tests
    `<token> in <name>` / `<token> not in <name>` whose token is a string
    constant, or a constant of each row of an enclosing loop over a table"""
    out = []
    for n in g.nodes:
        a = n.ast
        if n.kind != 'test' or not isinstance(a, ast.Compare) or \
                len(a.ops) != 1 or not isinstance(a.ops[0], (ast.In, ast.NotIn)) \
                or not isinstance(a.comparators[0], ast.Name):
            continue
        match = 'T' if isinstance(a.ops[0], ast.In) else 'F'
        var = a.comparators[0].id
        if cval(prog, f, a.comparators[0], {}) is not UNKNOWN:
            continue          # membership in a constant, not a substring test
        if isinstance(a.left, ast.Constant):
            if isinstance(a.left.value, str):
                out.append(TokEntry(a.left.value, var, n, match))
            continue
        for h in reversed(n.loops):
            la = g.loop_ast[h]
            if not isinstance(la, ast.For) or not (
                    set(stores_in_target(la.target)) &
                    {x.id for x in walk(a.left) if isinstance(x, ast.Name)}):
                continue
            rows = table_rows(prog, f, la.iter)
            if rows is None:
                # not a loop over a constant table (`for k in sd.keys()`);
                # without any entry the caller stops the analysis
                continue
            ents = []
            for i, row in enumerate(rows):
                env = {}
                tok = UNKNOWN
                if bind_row(la.target, row, env):
                    tok = cval(prog, f, a.left, env)
                if not isinstance(tok, str):
                    ents = None
                    break
                ents.append(TokEntry(tok, var, n, match, h, i, env))
            if ents:
                out += ents
            break
    return out


def loop_mode(f, g, ent):
    """'first' if a match leaves the table loop (break / return: the first
    matching row decides), 'last' if the loop goes on after a match (a later
    matching row overrides)"""
    body = g.loop_body[ent.loop]
    def ends(label):
        out = set()
        todo = [e for e in g.succ[ent.node.id] if e.label == label]
        seen = set()
        while todo:
            e = todo.pop()
            if e.back and e.dst == ent.loop:
                out.add('again')
                continue
            if e.dst not in body:
                out.add('exit')
                continue
            if e.dst in seen:
                continue
            seen.add(e.dst)
            todo += [x for x in g.succ[e.dst] if x.label != 'exc']
        return out
    if ends(ent.miss) != {'again'}:
        raise AnalysisError(
            'UNRECOGNISED-IDIOM %s: a row of the operator table which does '
            'not match does not lead to the next row' % f.where)
    m = ends(ent.match)
    if m == {'exit'}:
        return 'first'
    if m == {'again'}:
        return 'last'
    raise AnalysisError('UNRECOGNISED-IDIOM %s: a matching row of the operator '
                        'table leaves the loop on some paths only' % f.where)


def run_region(prog, f, g, ent, region, start):
    """abstract run of the statements carried out for a matching entry:
    ({name: 'B' | 'A' | 'S' | None} - which part of the split string a name
    holds at the end -, [(split call, separator value)])"""
    splits = []

    def aval(e, st):
        if isinstance(e, ast.Name):
            return st.get(e.id)
        if isinstance(e, (ast.Tuple, ast.List)):
            return ('seq', [aval(x, st) for x in e.elts])
        if isinstance(e, ast.IfExp):
            env = dict(ent.env)
            t = cval(prog, f, e.test, env)
            if t is UNKNOWN:
                a, b = aval(e.body, st), aval(e.orelse, st)
                return a if a == b else None
            return aval(e.body if t else e.orelse, st)
        if isinstance(e, ast.Subscript):
            b = aval(e.value, st)
            i = cval(prog, f, e.slice, ent.env)
            if isinstance(b, tuple) and b[0] == 'seq' and isinstance(i, int) \
                    and -len(b[1]) <= i < len(b[1]):
                return b[1][i]
            return None
        if isinstance(e, ast.Call) and isinstance(e.func, ast.Attribute):
            if e.func.attr in SPLITS and dotted(e.func.value) == ent.var:
                sep = e.args[0] if e.args else None
                sepv = cval(prog, f, sep, ent.env) if sep is not None else None
                splits.append((e, sepv))
                return ('seq', ['B', 'A'] if SPLITS[e.func.attr] == 2
                        else ['B', 'S', 'A'])
            if e.func.attr in KEEP_PART:
                return aval(e.func.value, st)
        return None

    def assign(t, v, st):
        if isinstance(t, ast.Name):
            st[t.id] = v
        elif isinstance(t, (ast.Tuple, ast.List)):
            if isinstance(v, tuple) and v[0] == 'seq' and \
                    len(v[1]) == len(t.elts):
                for x, y in zip(t.elts, v[1]):
                    assign(x, y, st)
            else:
                for x in t.elts:
                    assign(x, None, st)

    finals = []
    todo = [(start, {})]
    steps = 0
    while todo:
        nid, st = todo.pop()
        steps += 1
        if steps > 400:
            raise AnalysisError('UNRECOGNISED-IDIOM %s: the branch for %r has '
                                'too many paths' % (f.where, ent.tok))
        n = g.nodes[nid]
        st = dict(st)
        if n.kind == 'stmt' and isinstance(n.ast, ast.Assign):
            v = aval(n.ast.value, st)
            for t in n.ast.targets:
                assign(t, v, st)
        elif n.kind == 'stmt' and isinstance(n.ast, ast.AnnAssign) and \
                n.ast.value is not None:
            assign(n.ast.target, aval(n.ast.value, st), st)
        elif n.kind == 'stmt' and isinstance(n.ast, ast.AugAssign):
            assign(n.ast.target, None, st)
        outs = [e for e in g.succ[nid] if e.label != 'exc' and not e.back
                and e.dst in region]
        if n.kind == 'test':
            t = cval(prog, f, n.ast, ent.env)
            if t is not UNKNOWN:
                outs = [e for e in outs if e.label == ('T' if t else 'F')]
                if not outs and any(
                        e.label == ('T' if t else 'F') for e in g.succ[nid]):
                    finals.append(st)
                    continue
        if not outs:
            finals.append(st)
        for e in outs:
            todo.append((e.dst, st))
    names = set()
    for st in finals:
        names |= set(st)
    state = {}
    for nm in names:
        vals = {repr(st.get(nm)) for st in finals}
        v = finals[0].get(nm)
        state[nm] = v if len(vals) == 1 and v in ('B', 'A', 'S') else None
    return state, splits


def r11_5(prog, rep, rid='R11.5'):
    rep.rule(rid, 'expand_staging_directives: every documented redirection '
             'token has an entry in the ordered first-match dispatch (if/elif '
             'chain or loop over an operator table); an entry whose token '
             'contains another one takes precedence over it; each entry '
             'splits at its own token, `>` forms read source first, `<` forms '
             'target first; string and dict form expand to the same keys',
             minimum=16)
    f = prog.function(SD, 'expand_staging_directives')
    rep.saw(f)
    g = cfg_of(f)
    smap = I.stmt_node_map(g)
    ents = token_entries(prog, f, g)
    if not ents:
        raise AnalysisError('UNRECOGNISED-IDIOM %s: no `token in sd` tests '
                            'found (neither an if/elif chain nor a loop over '
                            'a constant operator table)' % f.where)
    loops = {e.loop for e in ents}
    if len(loops) > 1 or (None not in loops and
                          len({e.node.id for e in ents}) > 1):
        raise AnalysisError('UNRECOGNISED-IDIOM %s: the redirection tokens are '
                            'tested in more than one loop / partly outside of '
                            'the operator loop' % f.where)
    if len({e.var for e in ents}) != 1:
        raise AnalysisError('UNRECOGNISED-IDIOM %s: the token tests look at '
                            'different strings %s' % (
                                f.where, sorted({e.var for e in ents})))
    table = None not in loops
    mode = loop_mode(f, g, ents[0]) if table else 'first'
    # names which feed 'source' / 'target' of the expanded dict of the string
    # form: the dict literal that lies in the same branch as the token tests
    dicts = [n for n in walk(f.node) if isinstance(n, ast.Dict) and any(
        isinstance(k, ast.Constant) and k.value == 'source' for k in n.keys)]
    if len(dicts) != 2:
        raise AnalysisError('UNRECOGNISED-IDIOM %s: expected two expanded '
                            'directive literals, found %d' % (f.where,
                                                              len(dicts)))
    tok_nodes = {e.node.id for e in ents}
    str_dict = None
    for d in dicts:
        dn = smap.get(id(d))
        if dn is not None and any(
                dn.id in g.reachable(t) for t in tok_nodes):
            str_dict = d
    if str_dict is None:
        raise AnalysisError('UNRECOGNISED-IDIOM %s: no directive literal '
                            'follows the token tests' % f.where)
    role = {}
    for k, v in zip(str_dict.keys, str_dict.values):
        if isinstance(k, ast.Constant) and k.value in ('source', 'target'):
            for nm in {x.id for x in walk(v) if isinstance(x, ast.Name)}:
                role[nm] = k.value
    # (0) every documented token has an entry
    have = {e.tok for e in ents}
    for tok in DOC_TOKENS:
        rep.check(tok in have, rid, f, 'the short form %r has an entry' % tok,
                  construct='entry %s' % tok,
                  message='no branch of the short-form dispatch tests for the '
                  'documented redirection token %r (tokens tested: %s)'
                  % (tok, sorted(have)), loc=f.loc(ents[0].node.ast),
                  history="'a %s b' is not split at %r: it is split at a "
                  "shorter token, or taken as a plain source name" % (tok, tok))
    # (a) subsumption: an entry whose token is contained in the token of
    # another entry must not take precedence over it
    gcache = {}
    for e in ents:
        for o in ents:
            if o is e or o.tok == e.tok or o.tok not in e.tok:
                continue
            # `e.tok in s` implies `o.tok in s`
            if table:
                dead = (o.row < e.row) if mode == 'first' else (o.row > e.row)
                how = ('the operator table %s lists %r %s %r and the loop %s'
                       % (short(g.loop_ast[e.loop].iter, 40), o.tok,
                          'before' if mode == 'first' else 'after', e.tok,
                          'stops at the first entry contained in the string'
                          if mode == 'first' else 'goes on after a match, so '
                          'that the last entry contained in the string wins'))
            else:
                if e.node.id not in gcache:
                    gcache[e.node.id] = guards(g, e.node.id)
                dead = (o.node.id, o.miss) in gcache[e.node.id]
                how = ('the test for %r is only reached when %r is not in the '
                       'string' % (e.tok, o.tok))
            rep.check(not dead, rid, f,
                      '%r is tested before %r' % (e.tok, o.tok),
                      construct='%s before %s' % (e.tok, o.tok),
                      message='%s, but every string which contains %r contains '
                      '%r: the %r entry never decides and such directives are '
                      'split at %r' % (how, e.tok, o.tok, e.tok, o.tok),
                      loc=f.loc(e.node.ast),
                      history="'a %s b' is split at %r: the %s becomes %r"
                      % (e.tok, o.tok, 'target' if '>' in e.tok else 'source',
                         (e.tok[len(o.tok):] + ' b')))
    # (b) separator and orientation
    for e in ents:
        nid = e.node.id
        mdst = [x.dst for x in g.succ[nid] if x.label == e.match]
        fdst = [x.dst for x in g.succ[nid] if x.label == e.miss]
        if table:
            region = g.reachable(mdst, no_back=True) & g.loop_body[e.loop]
        else:
            region = g.reachable(mdst, no_back=True) - \
                g.reachable(fdst, no_back=True)
        if not mdst or mdst[0] not in region:
            raise AnalysisError('UNRECOGNISED-IDIOM %s: the %r entry has no '
                                'branch of its own' % (f.where, e.tok))
        state, splits = run_region(prog, f, g, e, region, mdst[0])
        if len(splits) != 1:
            raise AnalysisError('UNRECOGNISED-IDIOM %s: the %r branch does not '
                                'split %s exactly once (split / partition)'
                                % (f.where, e.tok, e.var))
        split, sepv = splits[0]
        rep.check(sepv == e.tok, rid, f, 'the %r branch splits at %r'
                  % (e.tok, e.tok), construct='split %s' % e.tok,
                  message='the branch taken for %r in the directive splits the '
                  'string at %r' % (e.tok, sepv), loc=f.loc(split),
                  history="'a %s b' is split into the wrong number of parts "
                  "or at the wrong place" % e.tok)
        got = {}
        for nm, r in role.items():
            if state.get(nm) in ('B', 'A'):
                got[r] = state[nm]
        if set(got) != {'source', 'target'}:
            raise AnalysisError('UNRECOGNISED-IDIOM %s: split result of the %r '
                                'branch is not bound to the source/target '
                                'names' % (f.where, e.tok))
        want = {'source': 'B', 'target': 'A'} if '>' in e.tok else \
            {'target': 'B', 'source': 'A'}
        first = 'source' if '>' in e.tok else 'target'
        rep.check(got == want, rid, f,
                  "'a %s b': %s = a, %s = b" % (
                      e.tok, first, 'target' if first == 'source' else 'source'),
                  construct='orientation %s' % e.tok,
                  message="the %r branch binds the part before the token to "
                  "the %s and the part after it to the %s; documented is "
                  "'src > tgt' and 'tgt < src'" % (
                      e.tok, [r for r in got if got[r] == 'B'],
                      [r for r in got if got[r] == 'A']),
                  loc=f.loc(split),
                  history="'a %s b' stages in the wrong direction" % e.tok)
    # (c) key sets
    def keys(d):
        return sorted(k.value for k in d.keys if isinstance(k, ast.Constant))
    other = [d for d in dicts if d is not str_dict][0]
    rep.check(keys(str_dict) == keys(other), rid, f,
              'string form and dict form expand to the same keys %s'
              % keys(other), construct='expanded keys',
              message='the string form expands to keys %s, the dict form to '
              '%s' % (keys(str_dict), keys(other)), loc=f.loc(str_dict),
              history='a stager reads sd[k] for a key only one form carries: '
              'KeyError for the other form')
    valid = None
    for n in walk(f.node):
        if isinstance(n, ast.Compare) and len(n.ops) == 1 and \
                isinstance(n.ops[0], (ast.NotIn, ast.In)) and \
                isinstance(n.comparators[0], ast.Name):
            cands = [(a.value, a) for a in walk(f.node)
                     if isinstance(a, ast.Assign) and any(
                         isinstance(t, ast.Name) and
                         t.id == n.comparators[0].id for t in a.targets)]
            # ... or a module level constant
            cands.append((n.comparators[0], n))
            for e, at in cands:
                v = prog.fold(f.module, e)
                if isinstance(v, (list, tuple)) and valid is None and \
                        all(isinstance(x, str) for x in v):
                    valid = (sorted(v), at)
    if valid is None:
        raise AnalysisError('UNRECOGNISED-IDIOM %s: the list of keys which are '
                            'valid on a dict directive was not found'
                            % f.where)
    rep.check(valid[0] == keys(other), rid, f,
              'every key the dict form admits is carried over %s'
              % valid[0], construct='valid keys',
              message='dict directives may use keys %s but the expansion '
              'carries %s: an admitted key is dropped silently, or a '
              'carried key is refused' % (valid[0], keys(other)),
              loc=f.loc(valid[1]),
              history='a dict directive with a key of the difference')
    # mandatory reads of the stagers are carried by the expansion
    for s in stagers(prog):
        need = set()
        for h in [s.loop.ast] + s.directive_loops():
            v = h.target.id
            for n in walk(h):
                if isinstance(n, ast.Subscript) and \
                        isinstance(n.ctx, ast.Load) and \
                        isinstance(n.value, ast.Name) and n.value.id == v and \
                        isinstance(n.slice, ast.Constant) and \
                        isinstance(n.slice.value, str):
                    need.add(n.slice.value)
        miss = sorted(need - set(keys(str_dict)) | need - set(keys(other)))
        rep.check(not miss, rid, s.handler,
                  '%s: directive keys read unconditionally %s are carried by '
                  'both forms' % (s.label, sorted(need)),
                  construct='reads:%s' % ','.join(miss),
                  message='%s stager reads sd[%s] unconditionally but '
                  'expand_staging_directives does not put it into every '
                  'expanded directive' % (s.label, miss), loc=s.handler.loc(),
                  history='any directive: KeyError in the stager, the task '
                  'fails')


# ------------------------------------------------------------------------------
# R11.6  context tables
#
_assign_index = {}


def _origin_keys(f, expr, depth=4):
    """constant keys X['k'] / X.get('k') from which the value of `expr` is
    computed, following plain name assignments of the function only"""
    out, seen = set(), set()
    if _assign_index.get('node') is not f.node:
        idx = {}
        for a in walk(f.node):
            if isinstance(a, ast.Assign):
                for t in a.targets:
                    if isinstance(t, ast.Name):
                        idx.setdefault(t.id, []).append(a)
        _assign_index['node'], _assign_index['idx'] = f.node, idx
    assigns = _assign_index['idx']

    def rec(e, d):
        for n in walk(e):
            if isinstance(n, ast.Subscript) and \
                    isinstance(n.slice, ast.Constant):
                out.add(n.slice.value)
            elif isinstance(n, ast.Call) and \
                    isinstance(n.func, ast.Attribute) and \
                    n.func.attr == 'get' and n.args and \
                    isinstance(n.args[0], ast.Constant):
                out.add(n.args[0].value)
            elif isinstance(n, ast.Name) and isinstance(n.ctx, ast.Load) \
                    and n.id not in seen and d > 0:
                seen.add(n.id)
                for a in assigns.get(n.id, ()):
                    rec(a.value, d - 1)
    rec(expr, depth)
    return out


class CtxEval:
    """abstract run of a handler: which names hold context dicts, and from
    which constant keys (of the task) each entry is computed.  Understands
    dict literals, dict(x, k=v) / x.copy(), item stores with constant keys,
    tuple assignments, and loops over constant tables (unrolled)"""

    def __init__(self, prog, f, cls):
        self.prog, self.f, self.cls = prog, f, cls
        self.consts = {}
        self.orig   = {}
        self.dicts  = {}
        self.run(f.node.body)

    def const(self, e):
        if isinstance(e, ast.Constant):
            return e.value
        if isinstance(e, ast.Name) and e.id in self.consts:
            return self.consts[e.id]
        v = self.prog.fold(self.f.module, e, self.cls)
        return None if v is UNKNOWN else v

    def origin(self, e):
        if e is None or isinstance(e, ast.Constant):
            return frozenset()
        if isinstance(e, ast.Name):
            return self.orig.get(e.id, frozenset())
        key, base = None, None
        if isinstance(e, ast.Subscript):
            key, base = e.slice, e.value
        elif isinstance(e, ast.Call) and isinstance(e.func, ast.Attribute) \
                and e.func.attr == 'get' and e.args:
            key, base = e.args[0], e.func.value
        if base is not None:
            k = self.const(key)
            if isinstance(base, ast.Name) and base.id in self.dicts:
                d = self.dicts[base.id]
                if isinstance(k, str):
                    return d[k][0] if k in d else frozenset()
                out = set()
                for v in d.values():
                    out |= v[0]
                return frozenset(out)
            out = set(self.origin(base))
            if isinstance(k, str):
                out.add(k)
            else:
                out |= self.origin(key)
            return frozenset(out)
        out = set()
        for c in ast.iter_child_nodes(e):
            if isinstance(c, ast.keyword):
                out |= self.origin(c.value)
            elif isinstance(c, ast.expr):
                out |= self.origin(c)
        return frozenset(out)

    def as_dict(self, v):
        if isinstance(v, ast.Dict):
            d = {}
            for k, x in zip(v.keys, v.values):
                if k is None:
                    # `{..., **other}`: the entries of a dict which can be
                    # followed are merged in place (later entries win)
                    sub = self.as_dict(x)
                    if sub is None:
                        d['?'] = (frozenset(), v)
                    else:
                        d.update(sub)
                    continue
                kk = self.const(k)
                if isinstance(kk, str):
                    d[kk] = (self.origin(x), x)
                else:
                    d['?'] = (frozenset(), v)
            return d
        if isinstance(v, ast.BinOp) and isinstance(v.op, ast.BitOr):
            # `a | b` on two dicts: entries of b win
            lhs, rhs = self.as_dict(v.left), self.as_dict(v.right)
            if lhs is None or rhs is None:
                return None
            d = dict(lhs)
            d.update(rhs)
            return d
        if isinstance(v, ast.Name) and v.id in self.dicts:
            return self.dicts[v.id]
        if isinstance(v, ast.Call):
            src = None
            fn = dotted(v.func)
            if fn in ('dict', 'copy.copy', 'copy.deepcopy') and \
                    len(v.args) <= 1:
                src = v.args[0] if v.args else ast.Dict(keys=[], values=[])
            elif isinstance(v.func, ast.Attribute) and \
                    v.func.attr == 'copy' and not v.args:
                src = v.func.value
            if src is not None:
                base = self.as_dict(src)
                if base is None:
                    return None
                d = dict(base)
                for kw in v.keywords:
                    if kw.arg is None:
                        sub = self.as_dict(kw.value)
                        if sub is None:
                            d['?'] = (frozenset(), v)
                        else:
                            d.update(sub)
                    else:
                        d[kw.arg] = (self.origin(kw.value), kw.value)
                return d
        return None

    def assign(self, t, v):
        if isinstance(t, (ast.Tuple, ast.List)) and \
                isinstance(v, (ast.Tuple, ast.List)) and \
                len(t.elts) == len(v.elts):
            # evaluate all right hand sides first
            vals = [(self.as_dict(x), self.origin(x)) for x in v.elts]
            for e, (d, o) in zip(t.elts, vals):
                if isinstance(e, ast.Name):
                    self.bind(e.id, d, o)
            return
        if isinstance(t, ast.Name):
            self.bind(t.id, self.as_dict(v), self.origin(v))
        elif isinstance(t, ast.Subscript) and isinstance(t.value, ast.Name) \
                and t.value.id in self.dicts:
            k = self.const(t.slice)
            if isinstance(k, str):
                self.dicts[t.value.id][k] = (self.origin(v), v)
            else:
                self.dicts[t.value.id]['?'] = (frozenset(), v)
        elif isinstance(t, (ast.Tuple, ast.List)):
            for e in t.elts:
                if isinstance(e, ast.Name):
                    self.bind(e.id, None, self.origin(v))

    def bind(self, name, d, o):
        self.consts.pop(name, None)
        if d is not None:
            self.dicts[name] = d
            self.orig.pop(name, None)
        else:
            self.dicts.pop(name, None)
            self.orig[name] = o

    def run(self, stmts):
        for s in stmts:
            if isinstance(s, ast.Assign):
                for t in s.targets:
                    self.assign(t, s.value)
            elif isinstance(s, ast.AnnAssign) and s.value is not None:
                self.assign(s.target, s.value)
            elif isinstance(s, ast.For):
                rows = self.const(s.iter)
                if isinstance(rows, (list, tuple)) and rows and \
                        len(rows) <= 32:
                    for row in rows:
                        self.bind_const(s.target, row)
                        self.run(s.body)
                else:
                    self.assign(s.target, s.iter)
                    self.run(s.body)
                self.run(s.orelse)
            elif isinstance(s, (ast.If, ast.While)):
                self.run(s.body)
                self.run(s.orelse)
            elif isinstance(s, ast.With):
                self.run(s.body)
            elif isinstance(s, ast.Try):
                self.run(s.body)
                for h in s.handlers:
                    self.run(h.body)
                self.run(s.orelse)
                self.run(s.finalbody)
            elif isinstance(s, ast.Expr) and isinstance(s.value, ast.Call) \
                    and isinstance(s.value.func, ast.Attribute) and \
                    s.value.func.attr == 'update' and \
                    isinstance(s.value.func.value, ast.Name) and \
                    s.value.func.value.id in self.dicts:
                d = self.dicts[s.value.func.value.id]
                c = s.value
                upd = self.as_dict(c.args[0]) if c.args else {}
                if upd is None:
                    d['?'] = (frozenset(), c)
                else:
                    d.update(upd)
                for kw in c.keywords:
                    if kw.arg:
                        d[kw.arg] = (self.origin(kw.value), kw.value)

    def bind_const(self, t, value):
        if isinstance(t, ast.Name):
            self.bind(t.id, None, frozenset())
            self.consts[t.id] = value
        elif isinstance(t, (ast.Tuple, ast.List)) and \
                isinstance(value, (list, tuple)) and \
                len(value) == len(t.elts):
            for e, v in zip(t.elts, value):
                self.bind_const(e, v)


def r11_6(prog, rep, rid='R11.6'):
    rep.rule(rid, 'each stager resolves URLs with src/tgt contexts which carry '
             'every documented schema, fed by the task entry of that name, '
             'and the documented `pwd`', minimum=52)
    for s in stagers(prog):
        f = s.handler
        ctx_eval = CtxEval(prog, f, s.cls)
        # (name of a context dict, role it is used in) -> first such use; the
        # role of a complete_url() call is decided by what it completes (a
        # directive's source or its target), not by the name of the context
        roles = {}
        for c in calls_in(f.node):
            callee = prog.resolve_call(f, c, s.cls)
            if callee is None or callee.module.rel != SD:
                continue
            if callee.name == 'complete_url':
                ctx = kwarg(c, 'context', 1)
                what = kwarg(c, 'path', 0)
                if isinstance(ctx, ast.Name) and what is not None:
                    org = _origin_keys(f, what)
                    if not org & {'source', 'target'}:
                        raise AnalysisError(
                            'UNRECOGNISED-IDIOM %s: `%s` completes neither a '
                            'directive source nor a target' % (f.where,
                                                               short(c, 60)))
                    # (a default target is computed from the source: a
                    # value which reads the target is the target)
                    roles.setdefault(
                        (ctx.id, 'tgt' if 'target' in org else 'src'), c)
            elif callee.name == 'expand_staging_directives':
                for role, kw, pos in (('src', 'src_context', 1),
                                      ('tgt', 'tgt_context', 2)):
                    ctx = kwarg(c, kw, pos)
                    if isinstance(ctx, ast.Name):
                        roles.setdefault((ctx.id, role), c)
        seen = set()
        done = set()
        for (name, role), use in sorted(roles.items(),
                                        key=lambda x: x[0]):
            table = ctx_eval.dicts.get(name)
            if table is None or '?' in table:
                raise AnalysisError(
                    'UNRECOGNISED-IDIOM %s: context %r (used for %s) %s'
                    % (f.where, name, role,
                       'is not built as a dict the recogniser can follow'
                       if table is None else 'has computed keys'))
            seen.add(role)
            want = dict(CTX_SOURCE)
            if s.side != 'client':
                want.pop('client')
            want['pwd'] = CTX_PWD[(s.label, role)]
            part = 'source' if role == 'src' else 'target'
            # the use which gives the dict this role, when its own name says
            # otherwise or it serves both
            other = [r for (n, r) in roles if n == name and r != role]
            via = ''
            if other:
                via = (' (the dict `%s` is also the %s context; here `%s` '
                       'resolves a directive %s with it)'
                       % (name, other[0], short(use, 60), part))
            for k, src in sorted(want.items()):
                what = '%s %s context: %r is fed by task[%r]' % (
                    s.label, role, k, src)
                if k not in table:
                    if (role, k) not in done:
                        rep.bad(rid, f, '%s:%s missing' % (role, k),
                                '%s stager: the %s context has no entry %r: '
                                'URLs with schema %s:// are left unresolved%s'
                                % (s.label, role, k, k, via), f.loc(),
                                history="a directive whose %s is '%s:///x'"
                                % (part, k))
                    done.add((role, k))
                    continue
                got = {"task[%r]" % x for x in table[k][0]
                       if x in CTX_SOURCE.values()}
                good = got == {"task[%r]" % src}
                if not good and (role, k) in done:
                    continue
                if not good:
                    done.add((role, k))
                rep.check(good, rid, f, what,
                          construct='%s:%s' % (role, k),
                          message='%s stager: entry %r of the %s context is '
                          'fed by %s, documented is task[%r]%s%s' % (
                              s.label, k, role, sorted(got) or 'no task entry',
                              src, ' (relative paths resolve against `pwd`)'
                              if k == 'pwd' else '', via),
                          loc=f.loc(use if other else table[k][1]),
                          history="a directive whose %s is %s" % (
                              part, "a relative path" if k == 'pwd'
                              else "'%s:///x'" % k))
        if seen != {'src', 'tgt'}:
            raise AnalysisError('UNRECOGNISED-IDIOM %s: contexts found for %s '
                                'only' % (f.where, sorted(seen)))


# ------------------------------------------------------------------------------
# R11.6b  the sandbox URLs a Session keeps in its cache are not changed through
#         an alias
#
SESSION = ('session.py', 'Session')
COPIES  = {'str', 'repr', 'copy.copy', 'copy.deepcopy', 'deepcopy'}


def cached_getters(prog, cls):
    """methods which, on some path, return an object held in self._cache"""
    out = {}
    for name, m in cls.methods.items():
        for n in walk(m.node):
            if isinstance(n, ast.Return) and n.value is not None:
                e = n.value
                while isinstance(e, ast.Subscript):
                    e = e.value
                if dotted(e) == 'self._cache' and e is not n.value:
                    out[name] = m
    return out


def alias_mutations(prog, f, is_getter_call):
    """[(call, bound name or None, mutating stmt or None)] for every call of a
    cached getter in f: how its result is used"""
    g = cfg_of(f)
    smap = I.stmt_node_map(g)
    out = []
    assigns = [n for n in walk(f.node) if isinstance(n, ast.Assign)]
    for c in calls_in(f.node):
        if not is_getter_call(c):
            continue
        bound = None
        for a in assigns:
            if a.value is c and len(a.targets) == 1 and \
                    isinstance(a.targets[0], ast.Name):
                bound = (a.targets[0].id, a)
        if bound is None:
            # the result used on the spot: a store through it?
            hit = None
            for kind, target, stmt in I.stores(f.node):
                e = target
                while isinstance(e, (ast.Attribute, ast.Subscript)):
                    e = e.value
                    if e is c:
                        hit = stmt
            out.append((c, None, hit))
            continue
        name, a = bound
        # names which refer to the same object: plain copies of the name
        names = {name}
        for _ in range(3):
            for b in assigns:
                if isinstance(b.value, ast.Name) and b.value.id in names:
                    for t in b.targets:
                        if isinstance(t, ast.Name):
                            names.add(t.id)
        dnode = smap.get(id(a))
        hit = None
        for kind, target, stmt in I.stores(f.node):
            r = root_name(target)
            if r not in names:
                continue
            mnode = smap.get(id(stmt))
            if dnode is None or mnode is None:
                continue
            # definitions which re-bind the names (e.g. x = ru.Url(x)) end the
            # alias; the mutation counts if it is reachable without them
            kills = set()
            for b in assigns:
                if b is a or (isinstance(b.value, ast.Name) and
                              b.value.id in names):
                    continue
                if any(isinstance(t, ast.Name) and t.id == r
                       for t in b.targets):
                    kn = smap.get(id(b))
                    if kn is not None:
                        kills.add(kn.id)
            starts = [e.dst for e in g.succ[dnode.id] if e.label != 'exc']
            if mnode.id in g.reachable(starts, skip_nodes=kills):
                hit = stmt
        out.append((c, name, hit))
    return out


def r11_6b(prog, rep, rid='R11.6b', sweep=False):
    cls = prog.cls(*SESSION)
    getters = cached_getters(prog, cls)
    if len(getters) < 4:
        raise AnalysisError('%s: only %d Session methods return an object of '
                            'self._cache (%s)' % (rid, len(getters),
                                                  sorted(getters)))
    if not sweep:
        rep.rule(rid, 'the result of a Session getter which returns an object '
                 'held in self._cache (%s) is copied before it is changed: no '
                 'attribute store / augmented assignment through a name bound '
                 'to it' % ', '.join(sorted(getters)), minimum=5)
        funcs = list(cls.methods.values())

        def is_getter_call(c, f):
            callee = prog.resolve_call(f, c, cls)
            return callee is not None and callee.cls is cls and \
                callee.name in getters
    else:
        rep.rule(rid, 'sweep: the same over every caller in the package '
                 '(calls matched by the getter names, which only Session '
                 'defines)', minimum=19)
        unique = {n for n in getters if not any(
            n in k.methods for k in prog.all_classes() if k is not cls)}
        funcs = []
        for m in prog.modules.values():
            funcs += list(m.funcs.values())
            for k in m.classes.values():
                if k is not cls:
                    funcs += list(k.methods.values())

        def is_getter_call(c, f):
            return isinstance(c.func, ast.Attribute) and \
                c.func.attr in unique
    for f in sorted(funcs, key=lambda x: x.where):
        uses = alias_mutations(prog, f, lambda c: is_getter_call(c, f))
        if uses:
            rep.saw(f)
        for c, name, hit in uses:
            gname = c.func.attr if isinstance(c.func, ast.Attribute) else '?'
            rep.check(hit is None, rid, f,
                      '%s: the cached result of %s is %s' % (
                          f.qual, gname, 'not changed through %r' % name
                          if name else 'copied / only read'),
                      construct=hit if hit is not None else c,
                      message='%s binds the result of %s() - the very object '
                      'Session keeps in self._cache - to %r and then changes '
                      'it with `%s` without copying it first (ru.Url(x)): '
                      'every later %s() returns the changed URL, so the '
                      'sandbox contexts of the stagers resolve to the wrong '
                      'directory' % (f.qual, gname, name or 'nothing',
                                     short(hit, 60) if hit is not None else '',
                                     gname),
                      loc=f.loc(hit if hit is not None else c),
                      history='first call of %s, then %s() again: the second '
                      'result differs from the first (e.g. resource:// '
                      'resolves one level too deep)' % (f.qual, gname))


# ------------------------------------------------------------------------------
# R11.7  skip on failure
#
def r11_7(prog, rep, rid='R11.7'):
    rep.rule(rid, 'output stagers take no directive of a task whose '
             'target_state is not DONE unless stage_on_error is set; tasks '
             'which are DONE are staged', minimum=4)
    done   = prog.const('states.py', 'DONE')
    failed = prog.const('states.py', 'FAILED')
    for s in stagers(prog):
        if s.key != 'output_staging':
            continue
        f, g = s.work, s.g
        # the per-task loop is the one around the directive loop
        if not s.loop.loops:
            raise AnalysisError('UNRECOGNISED-IDIOM %s: the directive loop is '
                                'not inside a per-task loop' % f.where)
        outer = s.loop.loops[-1]
        body = g.loop_body[outer]
        scope = g.loop_ast[outer]
        ts = key_exprs(scope, 'target_state')
        soe = key_exprs(scope, 'stage_on_error')
        if not ts:
            raise AnalysisError('UNRECOGNISED-IDIOM %s: the per-task loop does '
                                'not read target_state' % f.where)

        def reach(state, on_error):
            def ev(atom):
                return eval_keys_atom(prog, f, atom, scope,
                                      {'target_state': state,
                                       'stage_on_error': on_error})
            par = feasible(g, loop_start(g, outer), pruned_edges(g, ev),
                           within=body)
            return [n for n in s.appends if n.id in par], par

        hit, par = reach(failed, False)
        rep.check(not hit, rid, f,
                  '%s: no directive of a task with target_state FAILED (and '
                  'no stage_on_error) is collected' % s.label,
                  construct='skip-on-failure',
                  message='%s stager: directives of a task whose target_state '
                  'is not DONE are collected for staging although '
                  'stage_on_error is not set (path: %s)' % (
                      s.label, ' ; '.join(literals(g, par, hit[0].id))
                      if hit else ''),
                  loc=f.loc(s.appends[0].ast),
                  history='a task which failed (target_state FAILED, '
                  'stage_on_error unset) with output_staging directives: the '
                  'directives are carried out')
        # the guard is decided over the whole finite set of final target
        # states, not by its shape: every final state other than DONE (and
        # FAILED, above) must be excluded too - `== FAILED` in the place of
        # `!= DONE` lets a CANCELED task through
        final = prog.const('states.py', 'FINAL')
        if done not in final or failed not in final:
            raise AnalysisError('anchor constant states.py::FINAL does not '
                                'hold DONE and FAILED')
        for other in final:
            if other in (done, failed):
                continue
            hit, par = reach(other, False)
            rep.check(not hit, rid, f,
                      '%s: no directive of a task with target_state %s (and '
                      'no stage_on_error) is collected' % (s.label, other),
                      construct='skip-on-%s' % str(other).lower(),
                      message='%s stager: directives of a task whose '
                      'target_state is %s (not DONE) are collected for '
                      'staging although stage_on_error is not set: the set '
                      'of final target states which pass the guard is not '
                      '{DONE} (path: %s)' % (
                          s.label, other,
                          ' ; '.join(literals(g, par, hit[0].id))
                          if hit else ''),
                      loc=f.loc(s.appends[0].ast),
                      history='a task which was canceled while it ran '
                      '(target_state %s, stage_on_error unset) with '
                      'output_staging directives: the directives are carried '
                      'out' % other)
        hit, par = reach(done, False)
        rep.check(bool(hit), rid, f,
                  '%s: directives of a task with target_state DONE are '
                  'collected' % s.label, construct='stage-on-success',
                  message='%s stager: the directives of a task whose '
                  'target_state is DONE are never collected: the guard in '
                  'front of the directive filter excludes successful tasks'
                  % s.label, loc=f.loc(s.appends[0].ast),
                  history='a successful task with output_staging directives: '
                  'nothing is staged out')
        if soe:
            hit, par = reach(failed, True)
            rep.info(rid, f, 'observation: with stage_on_error set, a FAILED '
                     'task is %s by the %s stager' % (
                         'staged' if hit else 'not staged', s.label))
        else:
            rep.info(rid, f, 'observation: the %s stager does not look at '
                     'stage_on_error (skips failed tasks even when staging on '
                     'error was requested; not a finding - DESIGN R11.7)'
                     % s.label)


# ------------------------------------------------------------------------------
# R11.8  a tarball written through a temporary file object is complete on disk
#        before it is transferred
#
def r11_8(prog, rep, rid='R11.8'):
    rep.rule(rid, 'client input stager: the tarfile object which writes into a '
             'temporary file object (fileobj=) is closed, and the file object '
             'then closed or flushed, on every path from the last tar write to '
             'the staging operation which transfers the file by its name',
             minimum=2)
    s = [x for x in stagers(prog) if x.label == 'client-in'][0]
    f, g = s.handler, s.hg
    smap = s.hsmap
    # the handler and the methods of the stager it calls (the tarball may be
    # created by one of them and come back as a value)
    scope = [f]
    for c in calls_in(f.node):
        callee = prog.resolve_call(f, c, s.cls)
        if callee is not None and callee.cls is not None and \
                callee.module.rel == s.rel and not is_neutral(c) and \
                all(callee.node is not k.node for k in scope):
            scope.append(callee)
    sites = {}                      # site -> (FuncInfo, creating call)
    for k in scope:
        for n in _own_nodes(k.node):
            if isinstance(n, (ast.With, ast.AsyncWith)):
                for it in n.items:
                    r = prog.resolve(k.module, it.context_expr.func) \
                        if isinstance(it.context_expr, ast.Call) else None
                    if r and r[0] == 'ext' and (
                            r[1].startswith('tempfile.') or
                            r[1] == 'tarfile.open'):
                        raise AnalysisError(
                            'UNRECOGNISED-IDIOM %s: `with %s` - %s cannot '
                            'follow context managers'
                            % (k.where, short(it.context_expr, 40), rid))
            if isinstance(n, ast.Call):
                sh = shape_of(prog, k, n, s.cls)
                if sh and sh[0] == 'tmp':
                    sites[sh[1]] = (k, n)

    def sh_of(k, e):
        return shape_of(prog, k, e, s.cls)

    # does the name of the temporary file reach a directive source?
    flows = set()
    for k in scope:
        def name_of(x, k=k):
            """site if x is `<temporary file>.name`"""
            if isinstance(x, ast.Attribute) and x.attr == 'name':
                sh = sh_of(k, x.value)
                if sh and sh[0] == 'tmp':
                    return sh[1]
            return None
        names = {}                  # local name -> sites its value reads
        for _ in range(4):
            for n in _own_nodes(k.node):
                if isinstance(n, ast.Assign):
                    got = set()
                    for x in walk(n.value):
                        if name_of(x):
                            got.add(name_of(x))
                        elif isinstance(x, ast.Name):
                            got |= names.get(x.id, set())
                    for tg in n.targets:
                        if isinstance(tg, ast.Name) and got:
                            names.setdefault(tg.id, set()).update(got)
        for n in _own_nodes(k.node):
            if isinstance(n, ast.Dict):
                for key, v in zip(n.keys, n.values):
                    if isinstance(key, ast.Constant) and key.value == 'source':
                        for x in walk(v):
                            if name_of(x):
                                flows.add(name_of(x))
                            elif isinstance(x, ast.Name):
                                flows |= names.get(x.id, set())
    # receivers of the handler: tarfile objects writing into such a file
    # object, and the file objects themselves
    tar_calls, tmp_calls = {}, {}   # site -> [(call, cfg node id)]
    for c in calls_in(f.node):
        if not isinstance(c.func, ast.Attribute) or smap.get(id(c)) is None:
            continue
        sh = sh_of(f, c.func.value)
        if not sh:
            continue
        if sh[0] == 'tar' and sh[1] and sh[1][0] == 'tmp' and \
                sh[1][1] in flows:
            tar_calls.setdefault(sh[1][1], []).append((c, smap[id(c)].id))
        elif sh[0] == 'tmp' and sh[1] in flows:
            tmp_calls.setdefault(sh[1], []).append((c, smap[id(c)].id))
    if not tar_calls:
        for what in ('closed', 'flushed'):
            rep.ok(rid, f, 'no tarball is written through a temporary file '
                   'object whose name is transferred (nothing to be %s)'
                   % what, f.loc())
        return
    rep.saw(f)

    def nodes_calling(calls, attrs):
        return {nid for c, nid in calls if c.func.attr in attrs}

    def spelled(what, k=None):
        """how the handler (or function k) spells an object of shape `what`"""
        k = k or f
        cand = [x for x in _own_nodes(k.node)
                if isinstance(x, (ast.Name, ast.Attribute)) and
                sh_of(k, x) == what]
        cand.sort(key=lambda x: (getattr(x, 'lineno', 0),
                                 getattr(x, 'col_offset', 0)))
        return unparse(cand[0]) if cand else None

    handling = {n.id for n in g.nodes if s.effect_of(n) and
                s.effect_of(n)[0] in ('helper', 'op')}
    if not handling:
        raise AnalysisError('%s: no staging operation found in %s'
                            % (rid, f.where))
    for site in sorted(tar_calls):
        tcalls = sorted(tar_calls[site],
                        key=lambda x: (x[0].lineno, x[0].col_offset))
        kf, kcall = sites[site]
        tmp_shape = ('tmp', site)
        tar_shape = ('tar', tmp_shape)
        ta = unparse(tcalls[0][0].func.value)
        tm = spelled(tmp_shape) or spelled(tmp_shape, kf) or \
            short(kcall, 40)
        writes = nodes_calling(tcalls, ('add', 'addfile'))
        closes = nodes_calling(tcalls, ('close',))
        syncs  = nodes_calling(tmp_calls.get(site, ()), ('close', 'flush'))

        def is_obj(e):
            if not isinstance(e, (ast.Name, ast.Attribute)):
                return False
            sh = sh_of(f, e)
            return holds(sh, tar_shape) or holds(sh, tmp_shape)
        # once the tar object was written to, tests of it (or of the record
        # which holds it) are true
        pr = [(n.id, 'F') for n in g.nodes if n.kind == 'test' and
              is_obj(n.ast)]
        for n in g.nodes:
            a = n.ast
            if n.kind == 'test' and isinstance(a, ast.Compare) and \
                    len(a.ops) == 1 and \
                    isinstance(a.ops[0], (ast.Is, ast.IsNot)) and \
                    is_obj(a.left) and \
                    isinstance(a.comparators[0], ast.Constant) and \
                    a.comparators[0].value is None:
                pr.append((n.id, 'T' if isinstance(a.ops[0], ast.Is) else 'F'))
        if not writes:
            raise AnalysisError('UNRECOGNISED-IDIOM %s: nothing is added to '
                                'the tarball %r' % (f.where, ta))

        def escapes(starts, via):
            for a in starts:
                nxt = [e.dst for e in g.succ[a] if e.label != 'exc']
                r = g.reachable(nxt, skip_nodes=via, skip_edges=pr)
                if r & handling:
                    return True
            return False
        rep.check(bool(closes) and not escapes(writes, closes), rid, f,
                  'the tarfile %r is closed between the last add() and the '
                  'transfer' % ta, construct='%s.close()' % ta,
                  message='%s transfers the tarball by the name of the '
                  'temporary file %r, but on some path from `%s.add(..)` to '
                  'the staging operation the tarfile object is not closed: '
                  'the end-of-archive blocks are not written' % (f.qual, tm,
                                                                 ta),
                  loc=kf.loc(kcall),
                  history='a task with TARBALL input directives: the tarball '
                  'which arrives in the task sandbox is truncated')
        rep.check(bool(syncs) and not escapes(closes or writes, syncs), rid, f,
                  'the temporary file %r is closed or flushed after the '
                  'tarfile was closed and before the transfer' % tm,
                  construct='%s.close()' % tm,
                  message='%s writes the tarball through the file object %r '
                  '(tarfile.open(fileobj=%s)) and transfers the file by '
                  '%s.name, but on some path from `%s.close()` to the '
                  'staging operation the file object is neither closed nor '
                  'flushed: closing the tarfile does not flush the file '
                  'object, so the tail of the archive is still in its '
                  'buffer when the file is copied' % (f.qual, tm, tm, tm, ta),
                  loc=kf.loc(kcall),
                  history='a task with small TARBALL input directives: the '
                  'transferred <uid>.tar is empty or truncated and the agent '
                  'cannot unpack it')


# ------------------------------------------------------------------------------
# R11.9  a directive which cannot be carried out fails its task: the exception
#        of the staging operation is not swallowed on the way out of the
#        per-task handler (for a task whose outcome is DONE)
#
def outcome_eval(prog, f, done):
    """evaluation of test atoms of f for a task whose target_state is DONE:
    comparisons of task['target_state'] (or a name bound to it) with constants
    and names bound once to a boolean expression over them; None otherwise"""
    ts = key_exprs(f.node, 'target_state')

    def ev(atom, depth=0):
        if ts:
            v = eval_const_atom(prog, f, atom, ts, done)
            if v is not None:
                return v
        if isinstance(atom, ast.Name) and depth < 3:
            v = _local_single(f, atom.id)
            if isinstance(v, (ast.Compare, ast.BoolOp, ast.UnaryOp)):
                return evaluate_bool(v, lambda a: ev(a, depth + 1))
        return None
    return ev


def records_failure(prog, s, f, n, failed):
    """the statement fails the task on the spot: advance(task, FAILED), or -
    output stagers, where the final state is taken from it - a store of
    FAILED into the task's target_state"""
    if n.kind != 'stmt' or n.ast is None:
        return False
    for c in I.stmt_calls(n):
        if I.is_handon(c) and I.handon_state(prog, f, c, s.cls) == failed:
            return True
    if s.key == 'output_staging' and isinstance(n.ast, ast.Assign):
        for t in n.ast.targets:
            if isinstance(t, ast.Subscript) and \
                    isinstance(t.slice, ast.Constant) and \
                    t.slice.value == 'target_state' and \
                    prog.fold(f.module, n.ast.value, f.cls) == failed:
                return True
    return False


def swallow_witness(prog, s, f, g, node, dhead, done, failed):
    """None if an exception raised by cfg node `node` leaves f (or fails the
    task in f) on every path which is feasible for a task with target_state
    DONE; else (parent map, last node id, how the path ends)"""
    starts = [e.dst for e in g.succ[node.id]
              if e.label == 'exc' and e.dst != g.raise_.id]
    if not starts:
        return None
    pruned = set(pruned_edges(g, outcome_eval(prog, f, done)))
    parent = {st: None for st in starts}
    todo = list(starts)
    while todo:
        nid = todo.pop(0)
        n = g.nodes[nid]
        if nid == g.raise_.id or records_failure(prog, s, f, n, failed):
            continue
        if nid == g.exit.id:
            return parent, nid, 'returns normally'
        for e in g.succ[nid]:
            if (nid, e.label) in pruned:
                continue
            if e.label == 'exc' and n.kind != 'dispatch' and not (
                    n.kind == 'stmt' and isinstance(n.ast, ast.Raise)):
                continue          # some later statement raising by itself
            if e.back and e.dst in node.loops:
                if dhead is not None and dhead in node.loops and \
                        node.loops.index(e.dst) > node.loops.index(dhead):
                    raise AnalysisError(
                        'UNRECOGNISED-IDIOM %s: the staging operation `%s` is '
                        'repeated in a loop of its own after an exception '
                        '(retry): whether the last failure is raised cannot '
                        'be decided' % (f.where, short(node.ast, 50)))
                return parent, nid, ('goes on with the next directive'
                                     if e.dst == dhead or dhead is None else
                                     'goes on with the enclosing loop')
            if e.dst not in parent:
                parent[e.dst] = (nid, e)
                todo.append(e.dst)
    return None


def _written_names(g, parent, nid):
    out = set()
    while nid is not None:
        n = g.nodes[nid]
        if n.kind == 'stmt' and n.ast is not None:
            if isinstance(n.ast, (ast.Assign, ast.AugAssign, ast.AnnAssign)):
                tg = n.ast.targets if isinstance(n.ast, ast.Assign) \
                    else [n.ast.target]
                for t in tg:
                    for x in I._flat(t):
                        r = root_name(x)
                        if r and r != 'self':
                            out.add(r)
            for c in I.stmt_calls(n):
                if isinstance(c.func, ast.Attribute) and \
                        c.func.attr in I.MUTATING and not is_neutral(c):
                    r = root_name(c.func.value)
                    if r and r != 'self':
                        out.add(r)
        nid = parent[nid][0] if parent.get(nid) else None
    return out


def site_findings(prog, s, f, g, node, call, kind, dhead, done, failed,
                  depth=0):
    """[(function, call, parent map, last node, how)]: the ways in which an
    exception of the staging operation `call` (cfg node `node` of f) is
    swallowed; operations inside a method of the stager which is called for
    the directive are looked at in that method"""
    out = []
    for w in node.withs:
        for it in w.items:
            r = prog.resolve(f.module, it.context_expr.func) \
                if isinstance(it.context_expr, ast.Call) else None
            if r and r[0] == 'ext' and r[1].endswith('suppress'):
                raise AnalysisError(
                    'UNRECOGNISED-IDIOM %s: `%s` lies in `with %s`'
                    % (f.where, short(call, 40), short(it.context_expr, 40)))
    if kind == 'self' and depth < 2:
        callee = prog.resolve_call(f, call, s.cls)
        if callee is not None and callee.cls is not None:
            gc = cfg_of(callee)
            for n2 in gc.nodes:
                for c2 in I.stmt_calls(n2):
                    k2 = s.classify(c2, callee)
                    if isinstance(k2, tuple):
                        out += site_findings(prog, s, callee, gc, n2, c2,
                                             k2[0], None, done, failed,
                                             depth + 1)
    w = swallow_witness(prog, s, f, g, node, dhead, done, failed)
    if w is None:
        return out
    parent, last, how = w
    # a failure which is noted and raised later cannot be followed
    wr = _written_names(g, parent, last)
    if wr:
        for r in g.nodes:
            if (r.kind == 'stmt' and isinstance(r.ast, ast.Raise)) or \
                    records_failure(prog, s, f, r, failed):
                for t, lab in guards(g, r.id):
                    if {x.id for x in walk(g.nodes[t].ast)
                            if isinstance(x, ast.Name)} & wr:
                        raise AnalysisError(
                            'UNRECOGNISED-IDIOM %s: the except clause around '
                            '`%s` writes %s, which `%s` tests in front of a '
                            'raise: a deferred failure cannot be decided' % (
                                f.where, short(call, 40), sorted(wr),
                                short(g.nodes[t].ast, 40)))
    out.append((f, g, call, parent, last, how))
    return out


def r11_9(prog, rep, rid='R11.9'):
    rep.rule(rid, 'an exception raised by the staging operation of a directive '
             'leaves the per-task handler of the stager (or the task is failed '
             'there): no except clause around it ends normally for a task '
             'whose target_state is DONE (one obligation per stager and '
             'action)', minimum=24)
    acts   = action_values(prog)
    done   = prog.const('states.py', 'DONE')
    failed = prog.const('states.py', 'FAILED')
    for s in stagers(prog):
        dloops = s.directive_loops()
        sites, users = {}, {}
        for name, value in acts.items():
            if s.admits(value)[0]:
                for kind, call, node in s.handles(value)['effects']:
                    sites[node.id] = (kind, call, node)
                    users.setdefault(node.id, []).append(name)
        verdict = {}
        for nid, (kind, call, node) in sorted(sites.items()):
            dhead = None
            for h in node.loops:
                if s.hg.loop_ast[h] in dloops:
                    dhead = h
            verdict[nid] = site_findings(prog, s, s.handler, s.hg, node, call,
                                         kind, dhead, done, failed)
        for name, value in acts.items():
            if not s.admits(value)[0]:
                rep.ok(rid, s.handler, '%s: %s is not admitted (nothing to '
                       'show)' % (s.label, name), s.work.loc(s.loop.ast))
                continue
            mine = [nid for nid in sorted(sites) if name in users[nid]]
            if not mine:
                rep.ok(rid, s.handler, '%s: %s reaches no staging operation '
                       '(R11.1 reports that)' % (s.label, name),
                       s.handler.loc())
                continue
            bad = [x for nid in mine for x in verdict[nid]]
            if not bad:
                rep.ok(rid, s.handler, '%s: an exception of the staging '
                       'operation of a %s directive (%s) leaves %s: no except '
                       'clause around it, or every except path re-raises, '
                       'fails the task, or is taken only for a task which is '
                       'not DONE' % (s.label, name, ', '.join(
                           short(sites[nid][1].func, 50) for nid in mine),
                           s.handler.qual), s.handler.loc(sites[mine[0]][1]))
            for f, g, call, parent, last, how in bad:
                names = sorted({n for nid in mine for n in users[nid]
                                if any(x[2] is call for x in verdict[nid])}
                               or {name})
                lits = literals(g, parent, last)
                hnode = None
                nid = last
                while nid is not None:
                    if g.nodes[nid].kind == 'handler':
                        hnode = g.nodes[nid]
                    nid = parent[nid][0] if parent.get(nid) else None
                rep.saw(f)
                rep.bad(rid, f, 'swallowed: %s' % short(call.func, 60),
                        '%s stager: an exception raised by `%s` - the staging '
                        'operation of a %s directive - in %s is caught and '
                        'the except clause %s%s, also for a task whose '
                        'target_state is DONE: the directive was not carried '
                        'out, but nothing fails the task; it is handed on as '
                        'if its data were in place' % (
                            s.label, short(call, 50), '/'.join(names), f.qual,
                            how, ' when `%s`' % ' and '.join(lits)
                            if lits else ''),
                        f.loc(hnode.ast if hnode is not None else call),
                        history='a task which %s with %s=[{action: %s, source: '
                        'a file which does not exist, target: b}]%s: the '
                        'staging operation raises, the error is dropped and '
                        'the task %s without the target'
                        % ('succeeded (target_state DONE)'
                           if s.key == 'output_staging' else 'is staged in',
                           s.key, names[0],
                           ' for which `%s` holds' % ' and '.join(lits)
                           if lits else '',
                           'ends DONE' if s.key == 'output_staging'
                           else 'is executed'),
                        path=lits)


# ------------------------------------------------------------------------------
# sweep (thorough): every call on a StagingHelper anywhere in the package names
# an operation the facade has (exact: anything else is an AttributeError)
#
def r11_4s(prog, rep, rid='R11.4s'):
    rep.rule(rid, 'sweep: every method called on a StagingHelper object in the '
             'package exists in the facade', minimum=15)
    helper = prog.cls(HELPER, 'StagingHelper')

    def is_helper_call(mod, v):
        if not isinstance(v, ast.Call):
            return False
        r = prog.resolve(mod, v.func)
        return bool(r) and r[0] == 'class' and r[1] is helper

    for mod in prog.modules.values():
        funcs = list(mod.funcs.values())
        for c in mod.classes.values():
            funcs += list(c.methods.values())
        attrs = set()
        for f in funcs:
            for n in walk(f.node, nested=True):
                if isinstance(n, ast.Assign) and is_helper_call(mod, n.value):
                    for t in n.targets:
                        if dotted(t).startswith('self.'):
                            attrs.add((f.cls, dotted(t)))
        for f in funcs:
            local = set()
            for n in walk(f.node, nested=True):
                if isinstance(n, ast.Assign) and is_helper_call(mod, n.value):
                    for t in n.targets:
                        if isinstance(t, ast.Name):
                            local.add(t.id)
            for c in calls_in(f.node, nested=True):
                if not isinstance(c.func, ast.Attribute):
                    continue
                recv = dotted(c.func.value)
                if recv in local or (recv.startswith('self.') and f.cls and any(
                        k is not None and a == recv and k in prog.mro(f.cls)
                        for k, a in attrs)):
                    rep.saw(f)
                    rep.check(prog.find_method(helper, c.func.attr) is not None,
                              rid, f, '%s exists in StagingHelper'
                              % short(c.func, 50), construct=c,
                              message='%s calls %s(), which StagingHelper does '
                              'not have' % (f.qual, short(c.func, 50)),
                              loc=f.loc(c),
                              history='any call of %s reaching this statement '
                              'raises AttributeError' % f.qual)


# ------------------------------------------------------------------------------
# R11.10  the tarball of TARBALL directives is written by the client side input
#         stager and unpacked by the agent side input stager: the location the
#         member names are relative to (writer) and the directory the archive
#         is unpacked under (reader) are the same location.  tarfile.add()
#         removes the leading '/' of a member name, so a member named by an
#         absolute path is a member named relative to the file system root.
#
# abstract values of a path expression:
#   ('root',)            the string '/'
#   ('raw', k)           the directive's 'target' / 'source' entry as given
#   ('urlstr', O)        URL string of O
#   ('url', O)           Url object of O
#   ('path', O)          absolute path of O
#   ('rel', O, B)        path of O relative to location B
#   ('?', text)          anything else
# with O, B in ('target',), ('source',), ('loc', <task entry>)
#
_NORMAL   = {'next', 'T', 'F', 'iter', 'done'}
_LOC_KEYS = set(CTX_SOURCE.values())


class PathEval:

    def __init__(self, prog, f, cls, binding=None):
        self.prog, self.f, self.cls = prog, f, cls
        self.g       = cfg_of(f)
        self.smap    = I.stmt_node_map(self.g)
        self.binding = binding           # (PathEval of the caller, call)
        self.curl    = prog.function(SD, 'complete_url')
        # Url objects whose path is written in this function
        self.dirty = set()
        for kind, target, stmt in I.stores(f.node):
            if isinstance(target, ast.Attribute) and target.attr == 'path':
                self.dirty.add(dotted(target.value))

    def ext(self, e):
        r = self.prog.resolve(self.f.module, e)
        return r[1] if r and r[0] == 'ext' else None

    def node_of(self, e):
        n = self.smap.get(id(e))
        if n is None:
            raise AnalysisError('UNRECOGNISED-IDIOM %s: `%s` is not part of a '
                                'statement of the control flow graph'
                                % (self.f.where, short(e, 50)))
        return n.id

    def eval(self, e, nid, seen=frozenset()):
        """set of abstract values `e` may have when cfg node `nid` runs"""
        U = lambda: {('?', short(e, 40))}
        if isinstance(e, ast.Constant):
            if e.value in ('/', ):
                return {('root',)}
            return U()
        if isinstance(e, ast.IfExp):
            return self.eval(e.body, nid, seen) | self.eval(e.orelse, nid, seen)
        if isinstance(e, ast.Name):
            return self._name(e, nid, seen)
        if isinstance(e, ast.Attribute):
            if self.ext(e) in ('os.sep', 'os.path.sep'):
                return {('root',)}
            if e.attr == 'path':
                if dotted(e.value) in self.dirty:
                    return U()
                return {('path', v[1]) if v[0] == 'url' else ('?', short(e, 40))
                        for v in self.eval(e.value, nid, seen)}
            return U()
        if isinstance(e, ast.Subscript):
            if isinstance(e.slice, ast.Constant):
                k = e.slice.value
                if k in ('target', 'source'):
                    return {('raw', k)}
                if k in _LOC_KEYS:
                    return {('urlstr', ('loc', k))}
                return U()
            if isinstance(e.slice, ast.Slice) and e.slice.upper is None and \
                    e.slice.step is None and e.slice.lower is not None:
                lo = e.slice.lower
                if isinstance(lo, ast.Constant) and lo.value == 1:
                    # cuts the leading '/'
                    return {v if v[0] in ('path', 'rel') else
                            ('?', short(e, 40))
                            for v in self.eval(e.value, nid, seen)}
                bases = self._len_of(lo, nid, seen)
                if bases is not None:
                    return self._cut(e, self.eval(e.value, nid, seen), bases,
                                     keeps=False)
            return U()
        if isinstance(e, ast.Call):
            return self._call(e, nid, seen)
        return U()

    def _name(self, e, nid, seen):
        from ..flow import reaching_defs
        if (e.id, nid) in seen:
            return set()
        seen = seen | {(e.id, nid)}
        defs = reaching_defs(self.g, e.id, nid)
        if not defs:
            params = [p for p in self.f.params if p != 'self']
            if e.id in params and self.binding is not None:
                cev, call = self.binding
                i = params.index(e.id)
                arg = call.args[i] if i < len(call.args) and not any(
                    isinstance(a, ast.Starred) for a in call.args) \
                    else kwarg(call, e.id)
                if arg is not None:
                    return cev.eval(arg, cev.node_of(call))
            return {('?', e.id)}
        out = set()
        for n, v in defs:
            if v is None:
                out.add(('?', e.id))
            else:
                out |= self.eval(v, n.id, seen)
        return out

    def _len_of(self, e, nid, seen):
        """values X if `e` is len(X) (directly or through a name), else None"""
        if isinstance(e, ast.Name):
            from ..flow import reaching_defs
            defs = reaching_defs(self.g, e.id, nid)
            if len(defs) == 1 and defs[0][1] is not None:
                return self._len_of(defs[0][1], defs[0][0].id, seen)
            return None
        if isinstance(e, ast.Call) and isinstance(e.func, ast.Name) and \
                e.func.id == 'len' and len(e.args) == 1 and not e.keywords:
            return self.eval(e.args[0], nid, seen)
        return None

    def _cut(self, e, vals, bases, keeps):
        """values of `vals` with a leading `bases` removed; keeps: the value
        is kept as it is when it does not start with the base"""
        out = set()
        for v in vals:
            for b in bases:
                if v[0] == 'path' and b[0] == 'path' and b[1][0] == 'loc':
                    out.add(('rel', v[1], b[1]))
                    if keeps:
                        out.add(v)
                else:
                    out.add(('?', short(e, 40)))
        return out or {('?', short(e, 40))}

    def _call(self, e, nid, seen):
        U = {('?', short(e, 40))}
        args = e.args
        if any(isinstance(a, ast.Starred) for a in args) or \
                any(k.arg is None for k in e.keywords):
            return U
        x = self.ext(e.func)
        if x == 'radical.utils.Url' and len(args) == 1 and not e.keywords:
            return {('url', v[1]) if v[0] in ('url', 'urlstr') else
                    ('?', short(e, 40)) for v in self.eval(args[0], nid, seen)}
        if isinstance(e.func, ast.Name) and e.func.id == 'str' and \
                len(args) == 1:
            return {('urlstr', v[1]) if v[0] == 'url' else v
                    for v in self.eval(args[0], nid, seen)}
        if x in ('os.path.normpath', 'os.path.abspath') and len(args) == 1:
            return {v if v[0] in ('path', 'root') or
                    (v[0] == 'rel' and x == 'os.path.normpath')
                    else ('?', short(e, 40))
                    for v in self.eval(args[0], nid, seen)}
        if x == 'os.path.relpath':
            start = kwarg(e, 'start', 1)
            if args and start is not None:
                return self._cut(e, self.eval(args[0], nid, seen),
                                 self.eval(start, nid, seen), keeps=False)
            return U
        callee = self.prog.resolve_callable(self.f, e.func, self.cls)
        if callee is not None and callee.node is self.curl.node and \
                kwarg(e, self.curl.params[0], 0) is not None:
            return {('url', (v[1],)) if v[0] == 'raw' else
                    ('?', short(e, 40)) for v in self.eval(
                        kwarg(e, self.curl.params[0], 0), nid, seen)}
        if isinstance(e.func, ast.Attribute):
            recv, m = e.func.value, e.func.attr
            if m in ('lstrip', 'strip') and len(args) == 1 and \
                    self.eval(args[0], nid, seen) == {('root',)}:
                # tarfile.add() does the same to the member name
                return {v if v[0] in ('path', 'rel') else ('?', short(e, 40))
                        for v in self.eval(recv, nid, seen)}
            if m == 'removeprefix' and len(args) == 1:
                return self._cut(e, self.eval(recv, nid, seen),
                                 self.eval(args[0], nid, seen), keeps=True)
            if m == 'replace' and len(args) in (2, 3) and \
                    isinstance(args[1], ast.Constant) and args[1].value == '':
                return self._cut(e, self.eval(recv, nid, seen),
                                 self.eval(args[0], nid, seen), keeps=True)
        return U


def tar_sites(s, attrs, depth=2):
    """calls `<tarfile object>.<attr>(..)` in the handler of stager `s` and in
    the methods of its module the handler calls: [(PathEval, call)]"""
    out, done = [], set()

    def scan(f, binding, d, handed=()):
        if id(f.node) in done:
            return
        done.add(id(f.node))
        ev = PathEval(s.prog, f, s.cls, binding)
        def tarobj(e):
            return (isinstance(e, ast.Name) and e.id in handed) or \
                is_tar(s.prog, f, e, s.cls)
        for c in calls_in(f.node):
            if isinstance(c.func, ast.Attribute) and tarobj(c.func.value):
                if c.func.attr in attrs:
                    out.append((ev, c))
            elif d > 0 and not is_neutral(c) and \
                    dotted(c.func).startswith('self.'):
                callee = s.prog.resolve_call(f, c, s.cls)
                if callee is not None and callee.cls is not None and \
                        callee.module.rel == s.rel:
                    # parameters which receive a tarfile object
                    params = [p for p in callee.params if p != 'self']
                    sub = [params[i] for i, a in enumerate(c.args)
                           if tarobj(a) and i < len(params)]
                    sub += [k.arg for k in c.keywords if k.arg in params
                            and tarobj(k.value)]
                    scan(callee, (ev, c), d - 1, sub)
    scan(s.handler, None, depth)
    return out


def _base_text(b):
    if b == ('root',):
        return 'the file system root'
    if b == ('cwd',):
        return 'the working directory of the agent'
    if b == ('source',):
        return 'nothing (the member is named by the path of the source)'
    return 'the location task[%r]' % b[1]


def r11_10(prog, rep, rid='R11.10'):
    rep.rule(rid, 'tarball of TARBALL directives: every member is named '
             'relative to one location (an absolute path = relative to `/`, '
             'tarfile strips the leading slash) and the agent unpacks the '
             'archive under that same location', minimum=2)
    ci = [x for x in stagers(prog) if x.label == 'client-in'][0]
    ai = [x for x in stagers(prog) if x.label == 'agent-in'][0]
    for s in (ci, ai):
        for ev, c in tar_sites(s, ('addfile', 'extractfile')):
            raise AnalysisError(
                'UNRECOGNISED-IDIOM %s: `%s` - %s follows member names only '
                'through add(name, arcname) and extract/extractall(path)'
                % (ev.f.where, short(c, 50), rid))
    writers = tar_sites(ci, ('add',))
    readers = tar_sites(ai, ('extractall', 'extract'))
    if not writers and not readers:
        for what in ('written', 'unpacked'):
            rep.ok(rid, ci.handler if what == 'written' else ai.handler,
                   'no tarball is %s through a tarfile object (nothing to '
                   'pair)' % what, ci.handler.loc())
        return
    if not writers or not readers:
        raise AnalysisError(
            'UNRECOGNISED-IDIOM %s: %d tarfile add() site(s) in the client '
            'input stager but %d extract site(s) in the agent input stager'
            % (rid, len(writers), len(readers)))

    # writer: base of the member names
    wbases = {}                     # base -> (FuncInfo, call)
    for ev, c in writers:
        f = ev.f
        rep.saw(f)
        name = kwarg(c, 'arcname', 1)
        if name is None:
            name = kwarg(c, 'name', 0)
            if name is None:
                raise AnalysisError('UNRECOGNISED-IDIOM %s: `%s` has no member '
                                    'name' % (f.where, short(c, 50)))
        bases = set()
        for v in ev.eval(name, ev.node_of(c)):
            if v == ('path', ('target',)):
                bases.add(('root',))
            elif v[0] == 'rel' and v[1] == ('target',) and v[2][0] == 'loc':
                bases.add(v[2])
            elif v == ('path', ('source',)):
                bases.add(('source',))
            else:
                raise AnalysisError(
                    'UNRECOGNISED-IDIOM %s: the member name `%s` of `%s` is '
                    'neither the path of the completed target nor that path '
                    'relative to a sandbox of the task (%s)'
                    % (f.where, short(name, 50), short(c, 50), v[-1]))
        for b in bases:
            wbases.setdefault(b, (f, c))
        good = len(bases) == 1 and ('source',) not in bases
        rep.check(good, rid, f,
                  'every member added by `%s` is named relative to one '
                  'location' % short(c, 50),
                  construct='member names',
                  message='%s packs the files of TARBALL directives with '
                  'member names `%s` which are relative to %s: the agent '
                  'unpacks the whole archive under ONE directory, so for each '
                  'such directory the members named relative to another '
                  'location end up elsewhere than the directive\'s target '
                  '(tarfile.add() strips the leading `/`: an absolute member '
                  'name is a name relative to the file system root, it is NOT '
                  'unpacked to its absolute path)'
                  % (f.qual, short(name, 60),
                     ' / '.join(sorted(_base_text(b) for b in bases))),
                  loc=f.loc(c),
                  history='task with input directives {action: TARBALL, '
                  'target: task:///data/a.dat} and {action: TARBALL, target: '
                  'pilot:///shared/b.dat}: whatever directory the agent '
                  'unpacks under, one of the two files is not where its '
                  'directive says; input staging ends without an error and '
                  'the task is advanced to AGENT_SCHEDULING_PENDING')

    # reader: the directory the archive is unpacked under
    for ev, c in readers:
        f = ev.f
        rep.saw(f)
        root = kwarg(c, 'path', 0 if c.func.attr == 'extractall' else 1)
        roots = set()
        if root is None:
            roots.add(('cwd',))
        else:
            for v in ev.eval(root, ev.node_of(c)):
                if v == ('root',):
                    roots.add(v)
                elif v[0] == 'path' and v[1][0] == 'loc':
                    roots.add(v[1])
                else:
                    raise AnalysisError(
                        'UNRECOGNISED-IDIOM %s: the directory `%s` of `%s` is '
                        'neither `/` nor the path of a sandbox of the task '
                        '(%s)' % (f.where, short(root, 50), short(c, 50),
                                  v[-1]))
        miss = sorted((b, r) for b in wbases for r in roots if b != r)
        wf, wc = wbases[miss[0][0]] if miss else list(wbases.values())[0]
        rep.check(not miss, rid, f,
                  '`%s` unpacks under the location the member names are '
                  'relative to' % short(c, 50),
                  construct='extraction root',
                  message='%s unpacks the tarball of the TARBALL directives '
                  'with `%s`, i.e. under %s, but %s (`%s`) names members '
                  'relative to %s: those members are unpacked to <%s>/<member '
                  'name> instead of the target of their directive (tarfile '
                  'strips the leading `/` of absolute member names when the '
                  'archive is written, every member is relative to the '
                  'extraction directory)'
                  % (f.qual, short(c, 50),
                     _base_text(miss[0][1]) if miss else '',
                     wf.qual, short(wc, 60),
                     _base_text(miss[0][0]) if miss else '',
                     _base_text(miss[0][1]) if miss else ''),
                  loc=f.loc(c),
                  history='task with the input directive {action: TARBALL, '
                  'source: in.dat, target: pilot:///shared/in.dat} (or any '
                  'TARBALL target outside of the directory the agent unpacks '
                  'under): client and agent input staging end without an '
                  'error, the task is advanced to AGENT_SCHEDULING_PENDING, '
                  'and <pilot sandbox>/shared/in.dat does not exist - the '
                  'file is at <extraction directory>/<member name>')


# ------------------------------------------------------------------------------
# R11.11  a backend / facade operation of the staging helper reaches its file
#         system effect on every path which ends without an exception; an early
#         return which is decided by what the helper object remembers (instance
#         state) instead of by the state of the file system is a violation: the
#         file system is shared with other helper instances, the task payloads
#         and clean-ups
#
BACKEND_PURE_EXT = ('os.path.', 'radical.utils.Url')
FS_PROBES = {'os.path.exists', 'os.path.lexists', 'os.path.isdir',
             'os.path.isfile', 'os.path.islink', 'os.path.ismount',
             'os.path.getsize', 'os.path.getmtime', 'os.path.samefile',
             'os.path.realpath', 'os.access', 'os.stat', 'os.lstat',
             'os.listdir'}
CONTAINERS = {'set', 'dict', 'list', 'tuple', 'frozenset',
              'collections.defaultdict', 'collections.OrderedDict',
              'collections.deque', 'collections.Counter'}


def staging_backends(prog):
    """(facade class, [backend classes], {delegated operation names})"""
    helper = prog.cls(HELPER, 'StagingHelper')
    backends, delegated = [], set()
    for k in prog.mro(helper):
        for m in k.methods.values():
            for n in walk(m.node):
                if isinstance(n, ast.Assign) and any(
                        dotted(t) == 'self._backend' for t in n.targets) and \
                        isinstance(n.value, ast.Call):
                    r = prog.resolve(m.module, n.value.func)
                    if r and r[0] == 'class' and r[1] not in backends:
                        backends.append(r[1])
    for m in helper.methods.values():
        for c in calls_in(m.node):
            d = call_name(c)
            if d.startswith('self._backend.'):
                delegated.add(d.split('.')[-1])
                delegated.add(m.name)
    return helper, backends, delegated


def state_containers(prog, cls):
    """`self.<attr>` which hold plain containers (what the object remembers)"""
    out = set()
    for k in prog.mro(cls):
        for m in k.methods.values():
            for n in walk(m.node):
                if not isinstance(n, (ast.Assign, ast.AnnAssign)) or \
                        n.value is None:
                    continue
                v = n.value
                plain = isinstance(v, (ast.Set, ast.Dict, ast.List, ast.Tuple,
                                       ast.ListComp, ast.SetComp,
                                       ast.DictComp)) or (
                    isinstance(v, ast.Call) and dotted(v.func) in CONTAINERS)
                if plain:
                    tg = n.targets if isinstance(n, ast.Assign) else [n.target]
                    for t in tg:
                        d = dotted(t)
                        if d.startswith('self.') and d.count('.') == 1:
                            out.add(d)
    return out


class BackendOps:
    """classification of the calls of the methods of one helper class"""

    def __init__(self, prog, cls):
        self.prog, self.cls = prog, cls
        self.containers = state_containers(prog, cls)
        self._eff = {}

    def ext(self, m, e):
        r = self.prog.resolve(m.module, e)
        return r[1] if r and r[0] == 'ext' else None

    def kind(self, m, c, depth=2):
        """'effect' | 'probe' | None (logging, computation, book-keeping)"""
        if is_neutral(c):
            return None
        x = self.ext(m, c.func)
        if x is not None:
            if x in FS_PROBES:
                return 'probe'
            if any(x == p or (p.endswith('.') and x.startswith(p))
                   for p in BACKEND_PURE_EXT):
                return None
            return 'effect'
        if isinstance(c.func, ast.Name):
            return None if c.func.id in PURE_BUILTINS else 'effect'
        if isinstance(c.func, ast.Attribute):
            recv = dotted(c.func.value)
            if recv == 'self':
                callee = self.prog.find_method(self.cls, c.func.attr)
                if callee is None or depth <= 0:
                    return 'effect'
                return 'effect' if self.has_effect(callee, depth - 1) else (
                    'probe' if self.has_probe(callee, depth - 1) else None)
            if recv.startswith('self.'):
                head = '.'.join(recv.split('.')[:2])
                return None if head in self.containers else 'effect'
            if c.func.attr in PURE_METHODS or c.func.attr in (
                    'add', 'discard', 'remove', 'pop', 'update', 'lstrip',
                    'rstrip', 'replace', 'encode', 'decode'):
                # on a local value: a callee which could have an effect under
                # one of these names is not part of the helpers' vocabulary
                return None
        return 'effect'

    def has_effect(self, m, depth=2):
        key = (id(m.node), 'e')
        if key not in self._eff:
            self._eff[key] = False          # recursion
            self._eff[key] = any(self.kind(m, c, depth) == 'effect'
                                 for c in calls_in(m.node))
        return self._eff[key]

    def has_probe(self, m, depth=2):
        return any(self.kind(m, c, depth) == 'probe' for c in calls_in(m.node))

    def reads(self, m, atom, depth=3):
        """(instance state read, probes made) to compute the value of a test
        atom of m: follows plain name assignments of m and self-methods"""
        state, probes = set(), set()
        assigns = {}
        for a in walk(m.node):
            if isinstance(a, (ast.Assign, ast.AugAssign, ast.AnnAssign)) and \
                    a.value is not None:
                tg = a.targets if isinstance(a, ast.Assign) else [a.target]
                for t in tg:
                    for nm in stores_in_target(t):
                        assigns.setdefault(nm, []).append(a.value)
            elif isinstance(a, ast.For):
                for nm in stores_in_target(a.target):
                    assigns.setdefault(nm, []).append(a.iter)
        seen = set()

        def scan(f, e, d):
            funcs = set()
            for n in walk(e):
                if isinstance(n, ast.Call):
                    funcs.add(id(n.func))
                    if isinstance(n.func, ast.Attribute) and \
                            dotted(n.func.value) == 'self':
                        callee = self.prog.find_method(self.cls, n.func.attr)
                        if callee is not None and d > 0 and \
                                id(callee.node) not in seen:
                            seen.add(id(callee.node))
                            for s in callee.node.body:
                                scan(callee, s, d - 1)
                        elif callee is None:
                            probes.add(short(n, 40))
                        continue
                    k = self.kind(f, n)
                    if k in ('probe', 'effect'):
                        probes.add(short(n, 40))
            for n in walk(e):
                if isinstance(n, ast.Attribute) and id(n) not in funcs:
                    d_ = dotted(n)
                    if d_.startswith('self.') and d_.count('.') == 1 and \
                            not any((d_ + '.').startswith(p)
                                    for p in NEUTRAL_PREFIX):
                        state.add(d_)
                elif isinstance(n, ast.Name) and isinstance(n.ctx, ast.Load) \
                        and f is m and n.id in assigns and \
                        n.id not in seen and d > 0:
                    seen.add(n.id)
                    for v in assigns[n.id]:
                        scan(f, v, d - 1)
        scan(m, atom, depth)
        return state, probes


def unconditional_effect(ops, m, eff_ids, what):
    """decide whether method m passes one of the cfg nodes `eff_ids` on every
    path which ends without an exception.  Returns None (it does) or
    ([attrs], test node): a path without the effect is taken on what the
    object remembers.  Paths without the effect which are decided otherwise
    stop the analysis."""
    g = cfg_of(m)

    def region(cut):
        """nodes on a path entry -> exit of normal edges which avoids the
        effect nodes and the edges `cut`"""
        fwd = g.reachable(g.entry.id, skip_nodes=eff_ids, skip_edges=cut,
                          labels=_NORMAL)
        if g.exit.id not in fwd:
            return set()
        bwd, todo = set(), [g.exit.id]
        while todo:
            n = todo.pop()
            if n in bwd:
                continue
            bwd.add(n)
            for e in g.pred[n]:
                if e.label in _NORMAL and e.src in fwd and \
                        (e.src, e.label) not in cut:
                    todo.append(e.src)
        return bwd

    def deciding(R):
        """tests of the region with a way out of it: (node, atom, state read,
        probes made, edges which stay in the region)"""
        out = []
        for nid in sorted(R):
            n = g.nodes[nid]
            outs = [e for e in g.succ[nid] if e.label in _NORMAL]
            if n.kind in ('test', 'for') and any(e.dst not in R for e in outs):
                if not g.reachable(nid, labels=_NORMAL) & set(eff_ids):
                    # behind the effect (the exit status of a command which
                    # ran, say): the way out is a refusal or an error, it does
                    # not decide whether the effect is passed over
                    continue
                atom = n.ast if n.kind == 'test' else n.ast.iter
                state, probes = ops.reads(m, atom)
                out.append((n, atom, state, probes,
                            [(nid, e.label) for e in outs if e.dst in R]))
        return out

    R = region(set())
    if not R:
        return None
    dec = deciding(R)
    # the paths which are not taken on a probe of the world
    cut = {ed for d in dec if d[3] for ed in d[4]}
    R2 = region(cut)
    if not R2:
        t = [d for d in dec if d[3]][0]
        raise AnalysisError(
            'UNRECOGNISED-IDIOM %s: %s is passed over when `%s` (which looks '
            'at the world: %s) says so - whether that establishes the '
            'post-condition of the operation is not decided'
            % (m.where, what, short(t[1], 50), ', '.join(sorted(t[3]))))
    on = [d for d in deciding(R2) if not d[3]]
    st = [d for d in on if d[2]]
    if st:
        return sorted(set().union(*[d[2] for d in st])), st[0][0]
    raise AnalysisError(
        'UNRECOGNISED-IDIOM %s: a path which ends without an exception passes '
        'over %s%s - decided neither by a probe of the file system nor by '
        'instance state; a legitimate pre-condition cannot be told from a '
        'skipped operation'
        % (m.where, what, (' when `%s` says so' % short(on[0][1], 50))
           if on else ''))


def r11_11(prog, rep, rid='R11.11'):
    rep.rule(rid, 'every operation of the staging helper facade and of its '
             'backends which has a file system effect reaches it on every '
             'path that ends without an exception: no early return decided by '
             'what the helper instance remembers (the file system is shared '
             'with other helper instances and the payloads)', minimum=24)
    helper, backends, delegated = staging_backends(prog)
    if len(backends) < 2:
        raise AnalysisError('%s: only %d staging backend(s) found'
                            % (rid, len(backends)))
    for b in [helper] + backends:
        ops = BackendOps(prog, b)
        for op in sorted(delegated):
            m = prog.find_method(b, op)
            if m is None:
                rep.ok(rid, b.where, '%s has no %r: no effect to be passed '
                       'over (R11.4 decides about the operation)'
                       % (b.name, op))
                continue
            g = cfg_of(m)
            eff, sib = set(), {}
            for n in g.nodes:
                if isinstance(n.ast, (ast.Raise, ast.Assert)):
                    continue
                for c in I.stmt_calls(n):
                    if ops.kind(m, c) == 'effect':
                        eff.add(n.id)
                        if isinstance(c.func, ast.Attribute) and \
                                dotted(c.func.value) == 'self' and \
                                c.func.attr in delegated:
                            sib.setdefault(c.func.attr, set()).add(n.id)
            if not eff:
                rep.ok(rid, m, '%s.%s has no effect which could be passed '
                       'over (R11.4 decides about the operation)'
                       % (b.name, op), m.loc())
                continue
            rep.saw(m)
            groups = [('its file system effect', eff)] + [
                ('the operation `self.%s(..)` it relies on' % k, v)
                for k, v in sorted(sib.items()) if v != eff]
            bad = None
            for what, ids in groups:
                bad = unconditional_effect(ops, m, ids, what)
                if bad:
                    bad = (what,) + bad
                    break
            if not bad:
                rep.ok(rid, m, '%s.%s passes its effect on every path which '
                       'ends without an exception' % (b.name, op), m.loc())
            else:
                what, attrs, tn = bad
                rep.bad(rid, m, 'skipped on instance state',
                        '%s.%s returns without %s when `%s` says so, a test of '
                        'what this helper object remembers (%s) and not of the '
                        'file system.  The file system is shared: another '
                        'StagingHelper instance (each stager component has its '
                        'own), a MOVE directive, a task payload or a clean-up '
                        'can undo what this instance remembers having done; '
                        'the operation then silently does nothing and the '
                        'directive is reported as carried out'
                        % (b.name, op, what, short(tn.ast if tn.kind == 'test'
                                                   else tn.ast.iter, 50),
                           ', '.join(attrs)),
                        m.loc(tn.ast),
                        history='agent output stager: COPY task:///out.dat > '
                        'pilot:///exchange/out.0.dat creates <pilot sandbox>/'
                        'exchange; the agent INPUT stager (another helper '
                        'instance) runs MOVE pilot:///exchange > task:///'
                        'inputs for another task; the output stager then gets '
                        'COPY task:///out.dat > pilot:///exchange/out.2.dat: '
                        '%s.%s does nothing and `cp` fails for the missing '
                        'directory: a directive with nothing wrong about it '
                        'is not carried out (the target does not exist; the '
                        'task is advanced or, once the exit code of cp is '
                        'looked at, failed)' % (b.name, op))


def defs_at(g, name, nid):
    """what the plain name `name` may hold when cfg node `nid` runs:
    ([(defining cfg node, value expr | None)], initial) - the assignments
    which reach the node (value None: tuple / loop / augmented binding), and
    whether the value the name had at function entry (a parameter) may still
    be there"""
    from ..flow import reaching_defs
    alld = set()
    for n in g.nodes:
        if n.ast is None:
            continue
        if n.kind == 'stmt' and isinstance(n.ast, (ast.Assign, ast.AnnAssign,
                                                   ast.AugAssign)):
            tg = n.ast.targets if isinstance(n.ast, ast.Assign) \
                else [n.ast.target]
            if any(name in stores_in_target(t) for t in tg):
                alld.add(n.id)
        elif n.kind == 'for' and name in stores_in_target(n.ast.target):
            alld.add(n.id)
    initial = nid in g.reachable(g.entry.id, skip_nodes=alld - {nid})
    return reaching_defs(g, name, nid), initial


def reach_all(g, start, pruned):
    """{node id: (parent id, edge)} of the nodes reachable from `start`
    without the pruned edges (loops included)"""
    pruned = set(pruned)
    parent = {start: None}
    todo = [start]
    while todo:
        n = todo.pop(0)
        for e in g.succ[n]:
            if (e.src, e.label) in pruned:
                continue
            if e.dst not in parent:
                parent[e.dst] = (n, e)
                todo.append(e.dst)
    return parent


# ------------------------------------------------------------------------------
# R11.12  a call-out which reports failure through its return value: the result
#         is consumed and a failing exit status ends the operation with an
#         exception
#
# callee -> where the exit status is in the result
STATUS_CALLS = {
    'radical.utils.sh_callout'  : ('index', 2),    # (out, err, ret)
    'subprocess.getstatusoutput': ('index', 0),
    'subprocess.call'           : ('value', None),
    'os.system'                 : ('value', None),
    'subprocess.run'            : ('attr', 'returncode'),
}
# the variants which raise for a failing command
RAISING_CALLS = {'subprocess.check_call', 'subprocess.check_output'}
# exit codes of a failed command the tests are evaluated for
FAIL_CODES = (1, 2, 127, 255, -9)


def status_calls(prog, m):
    """[(call, callee, how)] of the calls of method m whose failure shows in
    the return value only"""
    out = []
    for c in calls_in(m.node):
        r = prog.resolve(m.module, c.func)
        if r and r[0] == 'ext' and r[1] in STATUS_CALLS:
            if r[1] == 'subprocess.run':
                chk = kwarg(c, 'check')
                if isinstance(chk, ast.Constant) and chk.value:
                    out.append((c, r[1], ('raises', None)))
                    continue
            out.append((c, r[1], STATUS_CALLS[r[1]]))
        elif r and r[0] == 'ext' and r[1] in RAISING_CALLS:
            out.append((c, r[1], ('raises', None)))
    return out


def _parents(fnode):
    out = {}
    for n in walk(fnode):
        for c in ast.iter_child_nodes(n):
            out[id(c)] = n
    return out


def r11_12(prog, rep, rid='R11.12'):
    rep.rule(rid, 'staging helper facade and backends: the result of every '
             'call which reports failure through its return value only '
             '(ru.sh_callout, subprocess.call / run without check, os.system) '
             'is consumed, and for a failing exit status the operation cannot '
             'end without an exception (or the result is returned to the '
             'caller)', minimum=2)
    helper, backends, delegated = staging_backends(prog)
    for b in [helper] + backends:
        for m in sorted(b.methods.values(), key=lambda x: x.name):
            calls = status_calls(prog, m)
            if not calls:
                continue
            rep.saw(m)
            g = cfg_of(m)
            smap = I.stmt_node_map(g)
            par_of = _parents(m.node)
            for c, callee, (how, where_) in calls:
                short_callee = callee.replace('radical.utils.', 'ru.')
                construct = 'exit status of %s' % short_callee
                if how == 'raises':
                    rep.ok(rid, m, '%s.%s: `%s` raises for a failing command'
                           % (b.name, m.name, short(c, 40)), m.loc(c))
                    continue
                hist = ('a COPY / TRANSFER directive whose source does not '
                        'exist (or whose target directory cannot be written): '
                        'the command exits with 1, %s.%s returns normally, '
                        'the stager counts the directive as carried out and '
                        'advances the task although the target does not '
                        'exist' % (b.name, m.name))
                n = smap.get(id(c))
                if n is None:
                    raise AnalysisError(
                        'UNRECOGNISED-IDIOM %s: `%s` is not part of a '
                        'statement of the control flow graph'
                        % (m.where, short(c, 50)))
                # the expression the call's value flows into, up to the
                # statement: c | c[i] | c.attr
                top, proj = c, None
                up = par_of.get(id(top))
                if how == 'index' and isinstance(up, ast.Subscript) and \
                        up.value is top and \
                        isinstance(up.slice, ast.Constant):
                    proj, top = up.slice.value, up
                    up = par_of.get(id(top))
                elif how == 'attr' and isinstance(up, ast.Attribute) and \
                        up.value is top:
                    proj, top = up.attr, up
                    up = par_of.get(id(top))
                # the statement which holds the call
                stmt = up
                while stmt is not None and not isinstance(stmt, ast.stmt):
                    stmt = par_of.get(id(stmt))
                if isinstance(stmt, ast.Return):
                    rep.ok(rid, m, '%s.%s returns the result of `%s` to its '
                           'caller' % (b.name, m.name, short(c, 40)), m.loc(c))
                    continue
                if isinstance(stmt, ast.Expr) and stmt.value is top and \
                        (proj is None or how != 'value'):
                    rep.bad(rid, m, 'result of %s discarded' % short_callee,
                            '%s.%s discards the result of `%s`: %s does not '
                            'raise when the command fails, it reports the '
                            'exit status in its return value - a failing '
                            'command (missing source, missing or read-only '
                            'target directory, full disk) is not noticed and '
                            'the operation returns as if it had been carried '
                            'out' % (b.name, m.name, short(c, 60),
                                     short_callee),
                            m.loc(c), history=hist)
                    continue
                # names / expressions which hold the exit status
                whole, status = set(), set()
                direct = None              # the call is read inside a test
                if isinstance(stmt, ast.Assign) and stmt.value is top:
                    for t in stmt.targets:
                        if isinstance(t, ast.Name):
                            if proj is None and how != 'value':
                                whole.add(t.id)
                            elif proj is None or proj == where_:
                                status.add(t.id)
                        elif isinstance(t, (ast.Tuple, ast.List)) and \
                                proj is None and how == 'index' and \
                                not any(isinstance(e, ast.Starred)
                                        for e in t.elts) and \
                                where_ < len(t.elts) and \
                                isinstance(t.elts[where_], ast.Name):
                            status.add(t.elts[where_].id)
                elif n.kind == 'test' or isinstance(stmt, ast.Assert):
                    if how == 'value' or proj == where_:
                        direct = top
                else:
                    raise AnalysisError(
                        'UNRECOGNISED-IDIOM %s: the result of `%s` is neither '
                        'returned, bound to names, tested nor discarded'
                        % (m.where, short(c, 50)))

                # where a name still holds what this call bound to it: on
                # every path from the call to the node no other assignment
                # of the name is passed
                fresh = {}

                def holds_result(name, at):
                    if name not in fresh:
                        kills = {k.id for k in g.nodes if k.id != n.id and
                                 k.ast is not None and (
                                     (k.kind == 'stmt' and isinstance(
                                         k.ast, (ast.Assign, ast.AnnAssign,
                                                 ast.AugAssign)) and any(
                                         name in stores_in_target(t) for t in (
                                             k.ast.targets if isinstance(
                                                 k.ast, ast.Assign)
                                             else [k.ast.target]))) or
                                     (k.kind == 'for' and name in
                                      stores_in_target(k.ast.target)))}
                        nxt = [e.dst for e in g.succ[n.id]
                               if e.label != 'exc']
                        clear = g.reachable(nxt, skip_nodes=kills)
                        dirty = set()
                        for k in kills & g.reachable(nxt):
                            dirty |= g.reachable(
                                [e.dst for e in g.succ[k]])
                        fresh[name] = clear - dirty
                    return at in fresh[name]

                def is_status(e, at):
                    if direct is not None and e is direct:
                        return True
                    if isinstance(e, ast.Name) and e.id in status:
                        return holds_result(e.id, at)
                    base = None
                    if how == 'index' and isinstance(e, ast.Subscript) and \
                            isinstance(e.slice, ast.Constant) and \
                            e.slice.value == where_:
                        base = e.value
                    elif how == 'attr' and isinstance(e, ast.Attribute) and \
                            e.attr == where_:
                        base = e.value
                    if isinstance(base, ast.Name) and base.id in whole:
                        return holds_result(base.id, at)
                    return False

                def derived(e, at, depth=3):
                    """value expr and cfg node of the one assignment which
                    gives the plain name e its value at `at`, when that value
                    is computed from the exit status; else None"""
                    if not isinstance(e, ast.Name) or depth <= 0 or \
                            e.id in status or e.id in whole:
                        return None
                    defs, initial = defs_at(g, e.id, at)
                    if initial or len(defs) != 1 or defs[0][1] is None:
                        return None
                    dn, v = defs[0]
                    if reads_status(v, dn.id, depth - 1):
                        return v, dn.id
                    return None

                def reads_status(e, at, depth=3):
                    return any(is_status(x, at) or
                               derived(x, at, depth) is not None
                               for x in walk(e))

                def value_of(e, at, code):
                    """python value of e for the exit status `code`, or
                    UNKNOWN"""
                    if is_status(e, at):
                        return code
                    if isinstance(e, ast.Constant):
                        return e.value
                    d = derived(e, at)
                    if d is not None:
                        return value_of(d[0], d[1], code)
                    if isinstance(e, ast.Call) and \
                            isinstance(e.func, ast.Name) and \
                            e.func.id in ('bool', 'int', 'abs') and \
                            len(e.args) == 1 and not e.keywords:
                        v = value_of(e.args[0], at, code)
                        if v is UNKNOWN:
                            return UNKNOWN
                        try:
                            return {'bool': bool, 'int': int,
                                    'abs': abs}[e.func.id](v)
                        except (TypeError, ValueError):
                            return UNKNOWN
                    if isinstance(e, ast.UnaryOp):
                        v = value_of(e.operand, at, code)
                        if v is UNKNOWN:
                            return UNKNOWN
                        try:
                            if isinstance(e.op, ast.Not):
                                return not v
                            if isinstance(e.op, ast.USub):
                                return -v
                        except TypeError:
                            pass
                        return UNKNOWN
                    if isinstance(e, ast.BoolOp):
                        vals = [value_of(x, at, code) for x in e.values]
                        if isinstance(e.op, ast.And):
                            if any(v is not UNKNOWN and not v for v in vals):
                                return False
                        elif any(v is not UNKNOWN and v for v in vals):
                            return True
                        if any(v is UNKNOWN for v in vals):
                            return UNKNOWN
                        return vals[-1] if isinstance(e.op, ast.And) \
                            else False
                    if isinstance(e, ast.Compare) and len(e.ops) == 1:
                        l = value_of(e.left, at, code)
                        r_ = value_of(e.comparators[0], at, code)
                        if l is UNKNOWN or r_ is UNKNOWN:
                            return UNKNOWN
                        op = e.ops[0]
                        try:
                            if isinstance(op, ast.Eq):
                                return l == r_
                            if isinstance(op, ast.NotEq):
                                return l != r_
                            if isinstance(op, ast.Is):
                                return l is r_
                            if isinstance(op, ast.IsNot):
                                return l is not r_
                            if isinstance(op, ast.Lt):
                                return l < r_
                            if isinstance(op, ast.LtE):
                                return l <= r_
                            if isinstance(op, ast.Gt):
                                return l > r_
                            if isinstance(op, ast.GtE):
                                return l >= r_
                            if isinstance(op, ast.In):
                                return l in r_
                            if isinstance(op, ast.NotIn):
                                return l not in r_
                        except TypeError:
                            return UNKNOWN
                    if isinstance(e, (ast.Tuple, ast.List, ast.Set)):
                        vals = [value_of(x, at, code) for x in e.elts]
                        return UNKNOWN if any(v is UNKNOWN for v in vals) \
                            else tuple(vals)
                    if not reads_status(e, at):
                        return prog.fold(m.module, e, m.cls)
                    return UNKNOWN

                def evaluator(code, at):
                    def ev(atom):
                        v = value_of(atom, at, code)
                        if v is not UNKNOWN:
                            return bool(v)
                        if reads_status(atom, at):
                            raise AnalysisError(
                                'UNRECOGNISED-IDIOM %s: the test `%s` reads '
                                'the exit status of `%s` in a way the '
                                'recogniser cannot evaluate'
                                % (m.where, short(atom, 50), short(c, 40)))
                        return None
                    return ev
                # the status handed on (to a method which may raise for it,
                # into a container): not followed here
                for k in g.nodes:
                    if k.ast is None or isinstance(k.ast, ast.Raise) or \
                            k.id == n.id:
                        continue
                    for c2 in I.stmt_calls(k):
                        if is_neutral(c2) or (
                                isinstance(c2.func, ast.Name) and
                                c2.func.id in PURE_BUILTINS):
                            continue
                        ops_ = list(c2.args) + [kw.value for kw in c2.keywords]
                        if any(is_status(x, k.id) or
                               derived(x, k.id) is not None or (
                                isinstance(x, ast.Name) and x.id in whole and
                                holds_result(x.id, k.id))
                               for a in ops_ for x in walk(a)):
                            raise AnalysisError(
                                'UNRECOGNISED-IDIOM %s: the exit status of '
                                '`%s` is handed to `%s` - what that does with '
                                'it is not followed'
                                % (m.where, short(c, 40), short(c2, 50)))
                witness = None
                for code in FAIL_CODES:
                    pruned = []
                    for t in g.nodes:
                        if t.kind == 'test':
                            v = evaluator(code, t.id)(t.ast)
                            if v is not None:
                                pruned.append((t.id, 'F' if v else 'T'))
                        elif t.kind == 'stmt' and \
                                isinstance(t.ast, ast.Assert):
                            v = evaluate_bool(t.ast.test,
                                              evaluator(code, t.id))
                            if v is not None:
                                pruned.append((t.id, 'exc' if v else 'next'))
                    # the call itself completes (it does not raise for a
                    # failing command)
                    par = reach_all(g, n.id, pruned + [(n.id, 'exc')])
                    if g.exit.id in par:
                        witness = (code, literals(g, par, g.exit.id))
                        break
                rep.check(witness is None, rid, m,
                          '%s.%s: with a failing exit status of `%s` the '
                          'operation ends with an exception'
                          % (b.name, m.name, short(c, 40)),
                          construct=construct,
                          message='%s.%s binds the result of `%s` but for the '
                          'exit status %s it still ends without an exception '
                          '(path: %s): %s does not raise when the command '
                          'fails - the failure is not noticed and the '
                          'operation returns as if it had been carried out'
                          % (b.name, m.name, short(c, 60),
                             witness[0] if witness else '',
                             ' ; '.join(witness[1]) or 'no test of the status'
                             if witness else '', short_callee),
                          loc=m.loc(c), history=hist)


# ------------------------------------------------------------------------------
# R11.13  complete_url: the sandbox URL of a context entry is extended by the
#         PATH COMPONENT of the parsed argument - the argument itself (and the
#         string of the parsed URL) still carries `<schema>://`
#
SLASH_DROPPERS = {'os.path.normpath', 'os.path.abspath', 'os.path.realpath',
                  'posixpath.normpath', 'pathlib.Path', 'pathlib.PurePath',
                  'pathlib.PurePosixPath'}


def r11_13(prog, rep, rid='R11.13'):
    rep.rule(rid, 'complete_url: what extends the URL taken from the context '
             'is the path component of the parsed argument (`<parsed>.path`), '
             'never the argument or the whole parsed URL, which carry the '
             'schema', minimum=1)
    f = prog.function(SD, 'complete_url')
    params = f.params
    if len(params) < 2:
        raise AnalysisError('%s: %s has no (path, context) parameters'
                            % (rid, f.where))
    arg, ctx = params[0], params[1]
    g = cfg_of(f)
    smap = I.stmt_node_map(g)

    def is_url(e):
        r = prog.resolve(f.module, e)
        return bool(r) and r[0] == 'ext' and r[1] == 'radical.utils.Url'

    def kinds(e, nid, seen=frozenset()):
        """what the value of e (read when cfg node nid runs) is made of: 'raw'
        the argument (schema included), 'url' the argument parsed, 'part' the
        path component of that, 'meta' another component, 'ctx' a context
        entry, 'base' a URL not made from the argument"""
        if isinstance(e, ast.Name):
            if (e.id, nid) in seen:
                return set()
            seen = seen | {(e.id, nid)}
            defs, initial = defs_at(g, e.id, nid)
            out = set()
            if initial and e.id == arg:
                out.add('raw')
            if initial and e.id == ctx:
                out.add('ctx')
            for dn, v in defs:
                if v is None:
                    # tuple / augmented binding: whatever the statement reads
                    v = getattr(dn.ast, 'value', None)
                    if isinstance(dn.ast, ast.AugAssign):
                        out |= kinds(ast.Name(id=e.id, ctx=ast.Load()),
                                     dn.id, seen)
                if v is not None:
                    out |= kinds(v, dn.id, seen)
            return out
        if isinstance(e, ast.Subscript) and 'ctx' in kinds(e.value, nid, seen):
            return {'ctx'}
        if isinstance(e, ast.Call):
            if isinstance(e.func, ast.Attribute) and \
                    e.func.attr in ('get', 'pop', 'setdefault') and \
                    'ctx' in kinds(e.func.value, nid, seen):
                return {'ctx'}
            if is_url(e.func) and e.args:
                k = kinds(e.args[0], nid, seen)
                if 'ctx' in k:
                    return {'base'} | (k & {'raw', 'url', 'part'})
                if k & {'raw', 'url'}:
                    return {'url'}
                return {'base'} | (k & {'part'})
        if isinstance(e, ast.Attribute):
            k = kinds(e.value, nid, seen)
            if 'url' in k:
                return (k - {'url'}) | \
                    ({'part'} if e.attr == 'path' else {'meta'})
            return k
        out = set()
        for c in ast.iter_child_nodes(e):
            if isinstance(c, ast.keyword):
                out |= kinds(c.value, nid, seen)
            elif isinstance(c, ast.expr):
                out |= kinds(c, nid, seen)
        return out

    def at(n):
        cn = smap.get(id(n))
        if cn is None:
            raise AnalysisError('UNRECOGNISED-IDIOM %s: `%s` is not part of a '
                                'statement of the control flow graph'
                                % (f.where, short(n, 50)))
        return cn.id
    sites = []                       # (node, value expr, what)
    for n in _own_nodes(f.node):
        if isinstance(n, (ast.Assign, ast.AugAssign)):
            tg = n.targets if isinstance(n, ast.Assign) else [n.target]
            for t in tg:
                if isinstance(t, ast.Attribute) and t.attr == 'path':
                    k = kinds(t.value, at(n))
                    if k & {'base', 'ctx'}:
                        sites.append((n, n.value, 'the path of the URL `%s` '
                                      'built from the context'
                                      % short(t.value, 30)))
        elif isinstance(n, ast.Call) and is_url(n.func) and n.args:
            k = kinds(n.args[0], at(n))
            if 'ctx' in k and k & {'raw', 'url', 'part'}:
                sites.append((n, n.args[0], 'the URL parsed from a context '
                              'entry and the argument'))

    def plain_only(n):
        """the site only runs for an argument without schema (the parsed
        schema is tested to be 'pwd', the schema complete_url itself gives to
        a relative path): the argument IS its path component there"""
        cn = smap.get(id(n))
        if cn is None:
            return False
        for tid, lab in guards(g, cn.id):
            cc = const_compare(prog, f.module, g.nodes[tid].ast, f.cls)
            if cc and cc[2] == frozenset(['pwd']) and \
                    (cc[1] == 'in') == (lab == 'T'):
                try:
                    ke = kinds(ast.parse(cc[0], mode='eval').body, tid)
                except SyntaxError:
                    ke = set()
                if 'meta' in ke:
                    return True
        return False
    good = False
    for n, v, what in sites:
        k = kinds(v, at(n))
        if not k & {'raw', 'url', 'part'}:
            continue
        whole = k & {'raw', 'url'}
        if whole and plain_only(n):
            rep.info(rid, f, 'observation: `%s` uses the argument itself, '
                     'under a test that it has no schema' % short(n, 60),
                     f.loc(n))
            continue
        if not whole:
            good = True
        rep.check(not whole, rid, f,
                  '%s is extended by the path component of the parsed '
                  'argument' % what, construct='expanded path',
                  message='complete_url extends %s with `%s`, which is made '
                  'of %s: for `<schema>:///x` (every explicit sandbox URL: '
                  'client://, task://, pilot://, session://, resource://, '
                  'endpoint://) the result is <sandbox>/<schema>:///x instead '
                  'of <sandbox>/x; only paths without schema resolve as '
                  'before' % (what, short(v, 60),
                              ' and '.join(sorted(
                                  {'raw': 'the unparsed argument',
                                   'url': 'the whole parsed URL'}[x]
                                  for x in whole))),
                  loc=f.loc(n),
                  history="input directive {source: 'client:///data/in.dat', "
                  "target: 'task:///sub/in.dat'}: source and target resolve "
                  "to <sandbox>/client:///data/in.dat and <sandbox>/task:///"
                  "sub/in.dat, `cp` fails, the task is advanced without the "
                  "file")
    if not good and not any(fd.rule == rid for fd in rep.findings):
        rep.bad(rid, f, 'expanded path',
                'complete_url never extends the URL of a context entry by '
                'the path component of its argument: every sandbox URL '
                'resolves to the sandbox directory itself', f.loc(),
                history="any directive with target 'task:///x'")

    # --- R11.18: the path component arrives unchanged at its end: a trailing
    # `/` tells the backends "place the source INTO this directory" (they make
    # os.path.dirname(target) and copy to the target as it is spelled)
    rid2 = 'R11.18'
    rep.rule(rid2, 'complete_url: the path component of the argument reaches '
             'the resulting URL with its trailing `/` (it is not passed '
             'through os.path.normpath / abspath / realpath / pathlib or '
             'strip(\'/\'), which drop it)', minimum=1)

    def ext(e):
        r = prog.resolve(f.module, e)
        return r[1] if r and r[0] == 'ext' else None

    def slash_dropper(e):
        """the operand whose trailing slash the call e drops, or None"""
        if not isinstance(e, ast.Call):
            return None
        if ext(e.func) in SLASH_DROPPERS and e.args:
            return e.args[0]
        if isinstance(e.func, ast.Attribute) and \
                e.func.attr in ('rstrip', 'strip') and len(e.args) == 1 and \
                isinstance(e.args[0], ast.Constant) and \
                isinstance(e.args[0].value, str) and '/' in e.args[0].value:
            return e.func.value
        return None

    def made_of(e, nid, seen=frozenset()):
        """'arg': the value of e carries (a part of) the argument; 'self': it
        carries the path of the URL which was built from the context (the URL
        under construction: its own path, whatever was appended so far)"""
        if isinstance(e, ast.Attribute) and e.attr == 'path':
            kv = kinds(e.value, nid)
            if kv & {'base', 'ctx'}:
                return {'self'}
            if 'url' in kv:
                return {'arg'}
        if isinstance(e, ast.Name):
            if (e.id, nid) in seen:
                return set()
            seen = seen | {(e.id, nid)}
            defs, initial = defs_at(g, e.id, nid)
            out = {'arg'} if initial and e.id == arg else set()
            for dn, v in defs:
                if v is None:
                    v = getattr(dn.ast, 'value', None)
                    if isinstance(dn.ast, ast.AugAssign):
                        out |= made_of(ast.Name(id=e.id, ctx=ast.Load()),
                                       dn.id, seen)
                if v is not None:
                    out |= made_of(v, dn.id, seen)
            return out
        out = set()
        for c in ast.iter_child_nodes(e):
            if isinstance(c, ast.keyword):
                out |= made_of(c.value, nid, seen)
            elif isinstance(c, ast.expr):
                out |= made_of(c, nid, seen)
        return out

    def dropped(e, nid, seen=frozenset()):
        """[(what loses its trailing slash: 'part' | 'self', call)] among the
        computations the value of e (read at cfg node nid) is made by"""
        out = []
        if isinstance(e, ast.Name):
            if (e.id, nid) in seen:
                return out
            seen = seen | {(e.id, nid)}
            defs, _ = defs_at(g, e.id, nid)
            for dn, v in defs:
                if v is None:
                    v = getattr(dn.ast, 'value', None)
                if v is not None:
                    out += dropped(v, dn.id, seen)
            return out
        opd = slash_dropper(e)
        if opd is not None:
            k = made_of(opd, nid)
            if 'arg' in k:
                out.append(('part', e))
            elif 'self' in k:
                out.append(('self', e))
        for c in ast.iter_child_nodes(e):
            if isinstance(c, ast.keyword):
                out += dropped(c.value, nid, seen)
            elif isinstance(c, ast.expr):
                out += dropped(c, nid, seen)
        return out

    looks = [n for n in _own_nodes(f.node)
             if isinstance(n, ast.Call) and
             isinstance(n.func, ast.Attribute) and n.func.attr == 'endswith'
             and smap.get(id(n)) is not None and
             kinds(n.func.value, at(n)) & {'raw', 'url', 'part'}]
    appends = [n for n, v, what in sites
               if kinds(v, at(n)) & {'raw', 'url', 'part'}]
    for n, v, what in sites:
        if not isinstance(n, (ast.Assign, ast.AugAssign)):
            continue
        hits = []
        for kind, call in dropped(v, at(n)):
            if kind == 'part':
                hits.append(call)
            elif any(a is not n and at(n) in g.reachable(at(a))
                     for a in appends):
                hits.append(call)
        if hits and looks:
            rep.info(rid2, f, 'observation: `%s` normalises the expanded '
                     'path, the function looks at the trailing slash of its '
                     'argument itself (`%s`): not decided'
                     % (short(hits[0], 50), short(looks[0], 50)), f.loc(n))
            continue
        if not hits and n not in appends:
            continue
        rep.check(not hits, rid2, f,
                  '%s receives the path component as it is spelled' % what,
                  construct='trailing slash',
                  message='complete_url passes the path component of its '
                  'argument through `%s`, which drops a trailing `/`: a '
                  'target `task:///inputs/` (a directory to place the source '
                  'into) resolves to <sandbox>/inputs, the backends make '
                  'os.path.dirname() of that (the sandbox) and copy the '
                  'source to a regular FILE called `inputs` instead of '
                  'inputs/<name>' % (short(hits[0], 60) if hits else ''),
                  loc=f.loc(n),
                  history="input directives {source: 'in.dat', target: "
                  "'task:///inputs/', action: TRANSFER} and {source: "
                  "'pilot:///shared.dat', target: 'task:///refs/', action: "
                  "COPY}: the task sandbox holds files `inputs` and `refs`, "
                  "not inputs/in.dat and refs/shared.dat; the task is "
                  "advanced")

    # --- R11.19: copy before change.  The context entries belong to the
    # caller (a stager's table of strings, or - pilot level staging - the
    # ru.Url objects the Pilot keeps for all its stage_in / stage_out calls):
    # what complete_url changes in place is an object it made itself
    rid3 = 'R11.19'
    rep.rule(rid3, 'complete_url changes in place (attribute / item store, '
             'augmented assignment through a name) only objects it has made '
             'itself: no definition which reaches such a store binds the name '
             'to the context or to one of its entries without a copying '
             'constructor in between', minimum=1)

    def shared(e, nid, seen=frozenset()):
        """the definition (expression) through which the value of e, read when
        cfg node nid runs, may be the context dict or an object it holds; None
        if every reaching definition makes a new object"""
        if isinstance(e, ast.Name):
            if (e.id, nid) in seen:
                return None
            seen = seen | {(e.id, nid)}
            defs, initial = defs_at(g, e.id, nid)
            if initial and e.id == ctx:
                return e
            for dn, v in defs:
                if v is not None:
                    w = shared(v, dn.id, seen)
                    if w is not None:
                        return w if isinstance(v, ast.Name) else v
            return None
        if isinstance(e, ast.Subscript):
            return e if shared(e.value, nid, seen) is not None else None
        if isinstance(e, ast.Call) and isinstance(e.func, ast.Attribute) and \
                e.func.attr in ('get', 'pop', 'setdefault'):
            return e if shared(e.func.value, nid, seen) is not None else None
        if isinstance(e, ast.IfExp):
            return shared(e.body, nid, seen) or shared(e.orelse, nid, seen)
        if isinstance(e, ast.BoolOp):
            for x in e.values:
                w = shared(x, nid, seen)
                if w is not None:
                    return w
            return None
        if isinstance(e, ast.NamedExpr):
            return shared(e.value, nid, seen)
        # a call (ru.Url(x), copy.deepcopy(x), dict(x), str(x)), an attribute
        # of an entry (a string), a literal, arithmetic: a new object
        return None

    n_store = 0
    for n in _own_nodes(f.node):
        if not isinstance(n, (ast.Assign, ast.AugAssign)):
            continue
        cn = smap.get(id(n))
        if cn is None:
            continue
        tg = n.targets if isinstance(n, ast.Assign) else [n.target]
        for t in tg:
            for x in I._flat(t):
                if not isinstance(x, (ast.Attribute, ast.Subscript)):
                    continue
                n_store += 1
                w = shared(x.value, cn.id)
                rep.check(w is None, rid3, f,
                          '`%s` changes an object made in complete_url'
                          % short(x, 40), construct='in place: %s'
                          % short(x, 40),
                          message='complete_url changes `%s` in place (`%s`), '
                          'and on some path `%s` is still the object the '
                          'caller keeps in the context (`%s`, no ru.Url(...) '
                          'copy on that path): the documented "new instance '
                          '(deep copy)" is not made, the sandbox URL in the '
                          'context grows by the path of every directive '
                          'expanded against it'
                          % (short(x.value, 30), short(n, 60),
                             short(x.value, 30),
                             short(w, 50) if w is not None else ''),
                          loc=f.loc(n),
                          history='contexts which hold ru.Url objects (pilot '
                          'level staging: Pilot._loc_ctx / _rem_ctx), two '
                          'expansions: pilot.stage_in([\'a.dat > pilot:///in/'
                          'a.dat\', \'b.dat > pilot:///in/b.dat\']) - the '
                          'second target resolves to <pilot sandbox>/in/a.dat'
                          '/in/b.dat, and pilot.pilot_sandbox itself has '
                          'changed')
    if not n_store:
        raise AnalysisError('UNRECOGNISED-IDIOM %s: complete_url stores into '
                            'no object (recogniser blind?)' % rid3)


# ------------------------------------------------------------------------------
# R11.14  the directory an operation creates in front of its effect is a PARENT
#         of the directive's target, never the target itself (the target is the
#         entry the directive names)
#
MKDIR_EXT = {'os.makedirs', 'os.mkdir', 'radical.utils.rec_makedir'}
# calls which keep the location a value denotes
SAME_PLACE_EXT = {'radical.utils.Url', 'os.path.normpath', 'os.path.abspath',
                  'os.path.expanduser', 'os.path.expandvars',
                  'os.path.realpath', 'os.fspath'}


def target_positions(prog):
    """index (among the arguments) at which handle_staging_directive passes
    the directive's target to the operation it dispatches to"""
    f = prog.method(HELPER, 'StagingHelper', 'handle_staging_directive')
    helper = prog.cls(HELPER, 'StagingHelper')
    pos = set()
    for c in calls_in(f.node):
        if is_neutral(c) or not c.args:
            continue
        d = call_name(c)
        local = isinstance(c.func, ast.Name) and \
            c.func.id not in PURE_BUILTINS
        own = d.startswith('self.') and d.count('.') == 1 and \
            prog.find_method(helper, d[5:]) is not None
        table = isinstance(c.func, ast.Subscript) or (
            isinstance(c.func, ast.Call))
        if not (local or own or table):
            continue
        for i, a in enumerate(c.args):
            if 'target' in _origin_keys(f, a) and \
                    'source' not in _origin_keys(f, a):
                pos.add(i)
    return f, pos


def r11_14(prog, rep, rid='R11.14'):
    rep.rule(rid, 'staging backends: the directory an operation creates '
             'before it writes the target of a directive is a parent of the '
             'target (os.path.dirname), never the target path itself',
             minimum=8)
    helper, backends, delegated = staging_backends(prog)
    hf, pos = target_positions(prog)
    if len(pos) != 1:
        raise AnalysisError('UNRECOGNISED-IDIOM %s: the directive\'s target '
                            'is passed at argument position(s) %s'
                            % (hf.where, sorted(pos)))
    p0 = list(pos)[0]
    hf, table = helper_table(prog)
    opnames = sorted({o for kind, ops in table.values() if kind == 'op'
                      for o in ops})
    for op in sorted(delegated - set(opnames)):
        if prog.find_method(helper, op) is not None:
            rep.ok(rid, helper.where, 'StagingHelper.%s is not an operation '
                   'handle_staging_directive carries a directive out with '
                   '(R11.3 decides about the dispatch)' % op)
    for op in opnames:
        fm = prog.find_method(helper, op)
        fparams = [p for p in fm.params if p != 'self']
        if p0 >= len(fparams):
            raise AnalysisError('UNRECOGNISED-IDIOM %s has no parameter %d'
                                % (fm.where, p0))
        tparam = fparams[p0]
        # (class, method, name of the parameter which holds the target)
        todo = [(helper, fm, tparam)]
        for c in calls_in(fm.node):
            d = call_name(c)
            if not d.startswith('self._backend.'):
                continue
            for b in backends:
                bm = prog.find_method(b, d.split('.')[-1])
                if bm is None:
                    continue
                bparams = [p for p in bm.params if p != 'self']
                for i, a in enumerate(c.args):
                    if isinstance(a, ast.Name) and a.id == tparam and \
                            i < len(bparams):
                        todo.append((b, bm, bparams[i]))
                for k in c.keywords:
                    if isinstance(k.value, ast.Name) and \
                            k.value.id == tparam and k.arg in bparams:
                        todo.append((b, bm, k.arg))
        for b, m, tp in todo:
            mg = cfg_of(m)
            msmap = I.stmt_node_map(mg)

            def ext(e, m=m):
                r = prog.resolve(m.module, e)
                return r[1] if r and r[0] == 'ext' else None

            def place(e, nid, seen=frozenset(), tp=tp, mg=mg, ext=ext):
                """relations ('same' | 'parent' | 'below' | '?') of the
                location e denotes, read when cfg node nid runs, to the
                location the target parameter names"""
                up = lambda k: {'parent' if r in ('same', 'parent') else '?'
                                for r in k}
                if isinstance(e, ast.Name):
                    if (e.id, nid) in seen:
                        return set()
                    seen = seen | {(e.id, nid)}
                    defs, initial = defs_at(mg, e.id, nid)
                    out = set()
                    if initial:
                        out.add('same' if e.id == tp else '?')
                    for dn, v in defs:
                        out |= place(v, dn.id, seen) if v is not None \
                            else {'?'}
                    return out
                if isinstance(e, ast.Attribute) and e.attr == 'path':
                    return place(e.value, nid, seen)
                if isinstance(e, ast.Call):
                    x = ext(e.func)
                    if (x in SAME_PLACE_EXT or (
                            isinstance(e.func, ast.Name) and
                            e.func.id == 'str')) and len(e.args) == 1:
                        return place(e.args[0], nid, seen)
                    if x == 'os.path.dirname' and len(e.args) == 1:
                        return up(place(e.args[0], nid, seen))
                    if x == 'os.path.join' and e.args:
                        k = place(e.args[0], nid, seen)
                        return {'below' if r in ('same', 'below') else '?'
                                for r in k}
                    if isinstance(e.func, ast.Attribute) and \
                            e.func.attr == 'rstrip' and len(e.args) == 1 \
                            and isinstance(e.args[0], ast.Constant) and \
                            e.args[0].value == '/':
                        return place(e.func.value, nid, seen)
                if isinstance(e, ast.Subscript) and \
                        isinstance(e.value, ast.Call) and \
                        ext(e.value.func) == 'os.path.split' and \
                        isinstance(e.slice, ast.Constant) and \
                        e.slice.value == 0 and len(e.value.args) == 1:
                    return up(place(e.value.args[0], nid, seen))
                return {'?'}
            for c in calls_in(m.node):
                d = call_name(c)
                mk = ext(c.func) in MKDIR_EXT
                if not mk and d.startswith('self.') and d.count('.') == 1 \
                        and d[5:] == 'mkdir' and \
                        prog.find_method(b, 'mkdir') is not None and \
                        m.name != 'mkdir':
                    mk = True
                if not mk and d.startswith('self.') and d.count('.') == 1 \
                        and not is_neutral(c) and msmap.get(id(c)) is not None:
                    # the target handed to another method of the class
                    callee = prog.find_method(b, d[5:])
                    if callee is not None and \
                            all(callee.node is not x[1].node for x in todo):
                        cps = [p for p in callee.params if p != 'self']
                        for i, a in enumerate(c.args):
                            if i < len(cps) and \
                                    place(a, msmap[id(c)].id) == {'same'}:
                                todo.append((b, callee, cps[i]))
                        for kw in c.keywords:
                            if kw.arg in cps and \
                                    place(kw.value,
                                          msmap[id(c)].id) == {'same'}:
                                todo.append((b, callee, kw.arg))
                if not mk or not c.args:
                    continue
                cn = msmap.get(id(c))
                if cn is None:
                    raise AnalysisError(
                        'UNRECOGNISED-IDIOM %s: `%s` is not part of a '
                        'statement of the control flow graph'
                        % (m.where, short(c, 50)))
                rel = place(c.args[0], cn.id)
                if not rel & {'same', 'parent', 'below'}:
                    continue                 # another location
                rep.saw(m)
                rep.check('same' not in rel and 'below' not in rel, rid, m,
                          '%s.%s creates a parent directory of its target '
                          '`%s` (`%s`)' % (b.name, m.name, tp, short(c, 50)),
                          construct='mkdir of the target',
                          message='%s.%s runs `%s` on the path of its target '
                          '`%s` itself%s: the target of a directive names the '
                          'entry to be created (file, link or copied tree), '
                          'the directory to make is its parent '
                          '(os.path.dirname).  With the target already there '
                          'as a directory a move / recursive copy puts the '
                          'source INSIDE it (<target>/<basename of the '
                          'source>), a link / download fails'
                          % (b.name, m.name, short(c, 50), tp,
                             ' (or below it)' if 'below' in rel else ''),
                          loc=m.loc(c),
                          history="directive {action: %s, source: "
                          "'pilot:///stage/mv_in.dat', target: 'task:///"
                          "inputs/mv_in.dat'}: <task sandbox>/inputs/"
                          "mv_in.dat becomes a directory which contains "
                          "mv_in.dat; the task is advanced, its payload "
                          "opens a directory" % op.upper())


# ------------------------------------------------------------------------------
#
# ------------------------------------------------------------------------------
# R11.15  a key which only the task *description* carries is read from the
#         description, not from the task dict next to it
#
# A task dict (Task.as_dict plus what the components store on it) and the
# description it carries under 'description' are two containers with different
# key sets.  An attribute of TaskDescription which nobody ever stores on a task
# dict (`stage_on_error`, ..) exists only in the description: `task.get(k)`
# yields the default for every task, whatever the application asked for.  The
# container of a read is decided by its access chain (aliases followed): it is
# the task dict if the same object is also asked for its 'description'.
#
TD = ('task_description.py', 'TaskDescription')
TASK = ('task.py', 'Task')


def _const_key_of(prog, module, node):
    """key of X['k'] / X.get('k', ..) / X.setdefault('k', ..) (the key may be
    a module constant) and the container expression; (None, None) otherwise"""
    if isinstance(node, ast.Subscript):
        k, cont = node.slice, node.value
    elif isinstance(node, ast.Call) and isinstance(node.func, ast.Attribute) \
            and node.func.attr in ('get', 'setdefault', 'pop') and node.args:
        k, cont = node.args[0], node.func.value
    else:
        return None, None
    if isinstance(k, ast.Constant):
        v = k.value
    elif isinstance(k, (ast.Name, ast.Attribute)):
        v = prog.fold(module, k)
    else:
        return None, None
    return (v, cont) if isinstance(v, str) else (None, None)


def description_keys(prog):
    K = prog.cls(*TD)
    sch = K.consts.get('_schema')
    if not isinstance(sch, ast.Dict):
        raise AnalysisError('UNRECOGNISED-IDIOM %s: _schema is no dict literal'
                            % K.where)
    out = set()
    for k in sch.keys:
        v = prog.fold(K.module, k, K) if k is not None else UNKNOWN
        if not isinstance(v, str):
            raise AnalysisError('UNRECOGNISED-IDIOM %s: schema key `%s`'
                                % (K.where, short(k, 30)))
        out.add(v)
    return out


def access_path(prog, f, expr, defs, depth=0):
    """(root name, [constant keys]) of an access chain, names which are bound
    exactly once to another chain followed; (None, []) if the chain does not
    start at a name"""
    segs = []
    e = expr
    while True:
        k, cont = _const_key_of(prog, f.module, e)
        if k is not None and not (isinstance(e, ast.Call) and
                                  e.func.attr != 'get'):
            segs.append(k)
            e = cont
        elif isinstance(e, ast.Subscript):
            e = e.value                       # an index selects an element
        elif isinstance(e, ast.BoolOp) and isinstance(e.op, ast.Or) and \
                len(e.values) == 2 and isinstance(e.values[1], (
                    ast.Dict, ast.Call, ast.Constant, ast.List)):
            e = e.values[0]                   # `x or {}`
        else:
            break
    segs.reverse()
    if not isinstance(e, ast.Name):
        return None, []
    vals = defs.get(e.id, [])
    if len(vals) == 1 and vals[0][0] == 'assign' and depth < 6 and \
            e.id not in f.params:
        root, pre = access_path(prog, f, vals[0][1], defs, depth + 1)
        if root is not None and (pre or isinstance(vals[0][1], ast.Name)):
            return root, pre + segs
    return e.id, segs


def _name_defs(fnode):
    """{name: [(kind, value)]}: every binding of a plain name in the function
    (kind 'assign' for `name = value`, 'other' for loops, with, augmented ..)"""
    out = {}
    for n in walk(fnode):
        if isinstance(n, ast.Assign):
            for t in n.targets:
                if isinstance(t, ast.Name):
                    out.setdefault(t.id, []).append(('assign', n.value))
                else:
                    for x in stores_in_target(t):
                        out.setdefault(x, []).append(('other', n.value))
        elif isinstance(n, (ast.AugAssign, ast.AnnAssign)):
            for x in stores_in_target(n.target):
                out.setdefault(x, []).append(('other', n.value))
        elif isinstance(n, (ast.For, ast.comprehension)):
            for x in stores_in_target(n.target):
                out.setdefault(x, []).append(('other', n.iter))
        elif isinstance(n, ast.With):
            for it in n.items:
                if it.optional_vars is not None:
                    for x in stores_in_target(it.optional_vars):
                        out.setdefault(x, []).append(('other', it.context_expr))
        elif isinstance(n, ast.NamedExpr) and isinstance(n.target, ast.Name):
            out.setdefault(n.target.id, []).append(('other', n.value))
    return out


def task_level_keys(prog):
    """keys which some code of the package puts on a dict that is not (for
    sure) a description: Task.as_dict, dict literals which carry a
    'description', `X['k'] = ..` / X.setdefault('k', ..) / X.update({'k': ..})
    whose container chain does not pass 'description'.  A superset of the keys
    of task dicts: a key outside of it is never found on one."""
    out = set()
    for m in prog.modules.values():
        for d in ast.walk(m.tree):
            if isinstance(d, ast.Dict):
                ks = [k.value for k in d.keys if isinstance(k, ast.Constant)
                      and isinstance(k.value, str)]
                if 'description' in ks:
                    out |= set(ks)
        funcs = []
        for c in m.classes.values():
            funcs += list(c.methods.values())
        funcs += list(m.funcs.values())
        for f in funcs:
            defs = None
            for n in walk(f.node, nested=True):
                tg = []
                if isinstance(n, ast.Assign):
                    tg = n.targets
                elif isinstance(n, (ast.AugAssign, ast.AnnAssign)):
                    tg = [n.target]
                elif isinstance(n, ast.Call) and isinstance(
                        n.func, ast.Attribute) and n.func.attr in (
                            'setdefault', 'update'):
                    tg = [n]
                for t in tg:
                    keys, cont = [], None
                    if isinstance(t, ast.Call) and t.func.attr == 'update':
                        cont = t.func.value
                        for a in t.args:
                            if isinstance(a, ast.Dict):
                                keys += [k.value for k in a.keys
                                         if isinstance(k, ast.Constant) and
                                         isinstance(k.value, str)]
                        keys += [k.arg for k in t.keywords if k.arg]
                    else:
                        k, cont = _const_key_of(prog, m, t)
                        keys = [k] if k is not None else []
                    if not keys:
                        continue
                    if defs is None:
                        defs = _name_defs(f.node)
                    root, pre = access_path(prog, f, cont, defs)
                    if 'description' in pre:
                        continue
                    out |= set(keys)
    return out


def _reads_of(prog, f):
    """[(node, key, root name, container path)] of the constant-key reads of
    function f whose access chain starts at a name"""
    defs = _name_defs(f.node)
    reads = []
    for x in walk(f.node, nested=True):
        if isinstance(x, ast.Subscript) and not isinstance(x.ctx, ast.Load):
            continue
        k, cont = _const_key_of(prog, f.module, x)
        if k is None or (isinstance(x, ast.Call) and
                         x.func.attr == 'setdefault'):
            continue
        root, pre = access_path(prog, f, cont, defs)
        if root is not None:
            reads.append((x, k, root, tuple(pre)))
    return reads


def r11_15(prog, rep, rid='R11.15'):
    rep.rule(rid, 'stagers: an attribute of TaskDescription which no code '
             'stores on a task dict (stage_on_error, ..) is read from the '
             "task's 'description' entry, not from the task dict itself",
             minimum=1)
    desc_only = description_keys(prog) - task_level_keys(prog)
    rep.stat('R11.15 description-only keys', len(desc_only))
    if 'stage_on_error' not in desc_only:
        raise AnalysisError('UNRECOGNISED-IDIOM R11.15: stage_on_error is not '
                            'a description-only key any more')
    n = 0
    for s in stagers(prog):
        K = s.cls
        reads = {name: _reads_of(prog, K.methods[name]) for name in K.methods}

        def holders(f, root, pre, depth=0):
            """[(function, root, path)]: the objects the container `root` +
            `pre` of a read in f may be - f's own name, or (root is a
            parameter) what the callers in the class pass for it"""
            out = [(f, root, pre)]
            ps = [p for p in f.params if p not in ('self', 'cls')]
            if root not in ps or depth > 2:
                return out
            for cname in sorted(K.methods):
                caller = K.methods[cname]
                cdefs = None
                for c in calls_in(caller.node, nested=True):
                    if call_name(c) != 'self.' + f.name:
                        continue
                    a = kwarg(c, root, ps.index(root))
                    if a is None:
                        continue
                    if cdefs is None:
                        cdefs = _name_defs(caller.node)
                    r2, p2 = access_path(prog, caller, a, cdefs)
                    if r2 is not None:
                        out += holders(caller, r2, tuple(p2) + pre, depth + 1)
            return out

        for name in sorted(K.methods):
            f = K.methods[name]
            for x, k, root, pre in reads[name]:
                if k not in desc_only:
                    continue
                n += 1
                rep.saw(f)
                hs = holders(f, root, pre)
                if any(p and p[-1] == 'description' for _, _, p in hs):
                    rep.ok(rid, f, "%s stager: `%s` is read from the task's "
                           'description' % (s.label, k), f.loc(x))
                    continue
                # the container is a task dict if the same object is asked for
                # its 'description' as well
                hit = None
                for hf, hr, hp in hs:
                    if any(r2 == hr and (p2[:len(hp) + 1] == hp +
                                         ('description',) or
                                         (p2 == hp and k2 == 'description'))
                           for _, k2, r2, p2 in reads[hf.name]):
                        hit = (hf, hr)
                if hit is None:
                    rep.ok(rid, f, '%s stager: `%s` is read from an object '
                           'which is not a task dict (it is never asked for '
                           "its 'description')" % (s.label, k), f.loc(x))
                    continue
                rep.bad(rid, f, 'description key:%s' % k,
                        "%s stager (%s): `%s` reads `%s` from the task dict, "
                        "but `%s` is an attribute of the task *description* "
                        "(TaskDescription schema) which no code stores on the "
                        "task dict: the lookup yields the default for every "
                        "task, whatever the application requested; %s reads "
                        "other attributes from `%s['description']`"
                        % (s.label, f.qual, short(x, 50), k, k, hit[0].qual,
                           hit[1]),
                        f.loc(x),
                        history=KEY_HISTORY.get(k, 'a task whose description '
                        'sets `%s`: the stager behaves as if it was not set'
                        % k))
    if not n:
        raise AnalysisError('UNRECOGNISED-IDIOM R11.15: the stagers read no '
                            'description-only attribute (recogniser blind?)')


def r11_16(prog, rep, rid='R11.16'):
    """R05.4 of C05 under an id of this property, plus: no handler of the
    per-task worker hands the exception on (a `raise` on a normal path out of
    the handler ends the loop over the tasks just like a missing handler)"""
    from . import c05
    c05.r05_4(prog, rep, rid=rid)
    for anchor in c05.STAGERS:
        K = prog.cls(*anchor)
        for mname in ('work', '_work'):
            f = K.methods.get(mname)
            if f is None:
                continue
            for g, node, call, hs in c05.per_task_handlers(prog, f):
                label = '%s::%s.%s' % (anchor[0].rsplit('/', 1)[0], K.name,
                                       mname)
                body = g.loop_body[node.loops[-1]]
                for h in hs:
                    if h.kind != 'handler':
                        continue
                    region = g.reachable(h.id, labels={'next', 'T', 'F',
                                                       'iter', 'done'},
                                         no_back=True) & body
                    again = [x for x in region if g.nodes[x].kind == 'stmt' and
                             isinstance(g.nodes[x].ast, ast.Raise)]
                    # (a raise under a test on the type of the exception may
                    # just spell a narrower / wider `except`: not decided)
                    again = [x for x in again if not any(
                        t in region and any(
                            isinstance(c, ast.Call) and
                            dotted(c.func) in ('isinstance', 'type',
                                               'issubclass')
                            for c in walk(g.nodes[t].ast))
                        for t, _lab in guards(g, x))]
                    rep.check(not again, rid, f, '%s: the handler `%s` of the '
                              'per-task worker does not raise'
                              % (label, short(h.ast, 30) if h.ast is not None
                                 else 'except'),
                              construct='%s:reraise' % label,
                              message='%s: a handler around `%s` raises (again): '
                              'the exception of one task leaves the loop over '
                              'the tasks, the tasks after it are not staged and '
                              'the whole bulk is failed' % (label,
                                                            short(call, 50)),
                              loc=f.loc(g.nodes[again[0]].ast) if again
                              else f.loc(call),
                              history='a bulk of three tasks, the first names '
                              'a missing source: all three end FAILED')
    _r11_20(prog, rep, c05)


def _r11_20(prog, rep, c05, rid='R11.20'):
    """a task whose per-task worker raised is not handed on as staged: between
    a handler of the worker call and the end of that iteration of the loop
    over the tasks, the task of the iteration is handed on (advance, or an own
    method which advances what it is given) in no state but FAILED"""
    rep.rule(rid, 'on no path from an except clause around the per-task '
             'worker of a stager to the end of that loop iteration is the '
             'task handed on in a state other than FAILED / CANCELED (the '
             'hand-on of a staged task is passed only when the worker '
             'returned)', minimum=4)
    final = {prog.const('states.py', 'FAILED'),
             prog.const('states.py', 'CANCELED')}
    normal = {'next', 'T', 'F', 'iter', 'done'}
    for anchor in c05.STAGERS:
        K = prog.cls(*anchor)
        for mname in ('work', '_work'):
            f = K.methods.get(mname)
            if f is None:
                continue
            for g, node, call, hs in c05.per_task_handlers(prog, f):
                label = '%s::%s.%s' % (anchor[0].rsplit('/', 1)[0], K.name,
                                       mname)
                tv = None
                for x in call.args:
                    if isinstance(x, ast.Name):
                        tv = x.id
                        break
                if tv is None:
                    continue
                body = g.loop_body[node.loops[-1]]
                for h in hs:
                    if h.kind != 'handler':
                        continue
                    region = g.reachable(h.id, labels=normal,
                                         no_back=True) & body
                    # what the handler path writes: a hand-on under a test of
                    # one of these may be taken only when nothing was caught
                    wr = {tv}
                    for x in region:
                        n = g.nodes[x]
                        if n.kind != 'stmt' or n.ast is None:
                            continue
                        if isinstance(n.ast, (ast.Assign, ast.AugAssign,
                                              ast.AnnAssign)):
                            tg = n.ast.targets \
                                if isinstance(n.ast, ast.Assign) \
                                else [n.ast.target]
                            for t in tg:
                                for y in I._flat(t):
                                    r = root_name(y)
                                    if r and r != 'self':
                                        wr.add(r)
                        for c in I.stmt_calls(n):
                            if isinstance(c.func, ast.Attribute) and \
                                    c.func.attr in I.MUTATING and \
                                    not is_neutral(c):
                                r = root_name(c.func.value)
                                if r and r != 'self':
                                    wr.add(r)
                    bad = None
                    for x in sorted(region):
                        n = g.nodes[x]
                        if n.kind != 'stmt':
                            continue
                        for c in I.stmt_calls(n):
                            try:
                                sts = c05._handoffs(prog, K, f, c, {tv})
                            except AnalysisError:
                                sts = set()
                            sts = {s for s in sts if isinstance(s, str) and
                                   s not in final}
                            if not sts:
                                continue
                            if any(t in region and
                                   {y.id for y in walk(g.nodes[t].ast)
                                    if isinstance(y, ast.Name)} & wr
                                   for t, _lab in guards(g, x)):
                                continue       # decided by what was noted
                            bad = bad or (c, sorted(sts))
                    rep.check(bad is None, rid, f, '%s: after `%s` caught an '
                              'exception of `%s` the task is handed on as '
                              'FAILED only' % (
                                  label, short(h.ast, 30)
                                  if h.ast is not None else 'except',
                                  short(call, 40)),
                              construct='%s:after-handler' % label,
                              message='%s: `%s` is reached also after the '
                              'except clause around `%s` has caught the '
                              'staging error of that task (it is not inside '
                              'the try / an else clause, and the handler does '
                              'not leave the iteration): the task whose '
                              'directive could not be carried out is handed '
                              'on as %s, as if its data were in place' % (
                                  label, short(bad[0], 50) if bad else '',
                                  short(call, 40),
                                  '/'.join(bad[1]) if bad else ''),
                              loc=f.loc(bad[0]) if bad else f.loc(call),
                              history='a bulk of three tasks, the second with '
                              'an input directive whose source does not '
                              'exist: it is advanced to %s and pushed on (and '
                              'executed without its input); FAILED follows '
                              'only later' % ('/'.join(bad[1]) if bad else ''))


# ------------------------------------------------------------------------------
# R11.17  pilot level staging (Pilot.stage_in / Pilot.stage_out): the context
#         which completes a directive's source (target) resolves a relative
#         path against the documented default and every schema against the
#         sandbox of that name
#
# Pilot.stage_in moves data from the client to the pilot: a source without
# schema is relative to the client sandbox, a target relative to the pilot
# sandbox; Pilot.stage_out is the mirror image.  The sandboxes are the values
# the Session getters hand out; the entry of a context is identified by the
# getter which feeds it, never by the name of the attribute which holds it.
#
PILOT = ('pilot.py', 'Pilot')
PILOT_GETTER = {'client'  : '_get_client_sandbox',
                'pilot'   : '_get_pilot_sandbox',
                'resource': '_get_resource_sandbox',
                'session' : '_get_session_sandbox',
                'endpoint': '_get_endpoint_fs'}
PILOT_PWD = {('stage_in',  'src'): 'client',
             ('stage_in',  'tgt'): 'pilot',
             ('stage_out', 'src'): 'pilot',
             ('stage_out', 'tgt'): 'client'}


class _SelfNames(ast.NodeTransformer):
    """`self.x` -> the name `self.x` (so that attributes of the instance are
    followed like locals)"""

    def visit_Attribute(self, n):
        if isinstance(n.value, ast.Name) and n.value.id == 'self':
            return ast.copy_location(ast.Name(id='self.' + n.attr, ctx=n.ctx),
                                     n)
        return self.generic_visit(n)


class SelfCtxEval(CtxEval):
    """CtxEval over a method in which instance attributes count as names;
    `seed` = dicts known from another method of the class"""

    def __init__(self, prog, f, cls, seed=None):
        self.prog, self.f, self.cls = prog, f, cls
        self.consts = {}
        self.orig   = {}
        self.dicts  = {k: dict(v) for k, v in (seed or {}).items()}
        self.tree   = _SelfNames().visit(copy.deepcopy(f.node))
        self.run(self.tree.body)


def r11_17(prog, rep, rid='R11.17'):
    rep.rule(rid, 'Pilot.stage_in / stage_out complete the source and the '
             'target of a directive with a context whose `pwd` is the '
             'documented default (client sandbox on the client side, pilot '
             'sandbox on the pilot side) and whose schema entries are fed by '
             'the Session getter of that sandbox', minimum=24)
    cls = prog.cls(*PILOT)
    session = prog.cls(*SESSION)
    for getter in PILOT_GETTER.values():
        prog.method(SESSION[0], SESSION[1], getter)
    methods = I.class_methods(prog, cls)

    # stores to instance attributes, per attribute
    stores = {}
    for m in methods.values():
        for n in _own_nodes(m.node):
            if isinstance(n, ast.Assign):
                for t in n.targets:
                    if isinstance(t, ast.Attribute) and \
                            isinstance(t.value, ast.Name) and \
                            t.value.id == 'self':
                        stores.setdefault(t.attr, []).append((m, n.value))
                    elif isinstance(t, (ast.Tuple, ast.List)):
                        for e in t.elts:
                            if isinstance(e, ast.Attribute) and \
                                    isinstance(e.value, ast.Name) and \
                                    e.value.id == 'self':
                                stores.setdefault(e.attr, []).append((m, None))

    def is_url(m, e):
        r = prog.resolve(m.module, e)
        return bool(r) and r[0] == 'ext' and r[1] == 'radical.utils.Url'

    def feed(m, e, local, seen=frozenset()):
        """names of the Session getters whose result the value of e is ('?':
        something else)"""
        if isinstance(e, ast.Name) and e.id.startswith('self.'):
            e = ast.Attribute(value=ast.Name(id='self', ctx=ast.Load()),
                              attr=e.id[5:], ctx=ast.Load())
        if isinstance(e, ast.Attribute) and isinstance(e.value, ast.Name) \
                and e.value.id == 'self':
            if e.attr in seen:
                return set()
            out = set()
            for sm, v in stores.get(e.attr, ()):
                if v is None:
                    out.add('?')
                elif isinstance(v, ast.Call) and is_url(sm, v.func) and \
                        not v.args and not v.keywords:
                    continue                      # placeholder, overwritten
                else:
                    out |= feed(sm, v, True, seen | {e.attr})
            return out or {'?'}
        if isinstance(e, ast.Name):
            if not local or ('name', e.id) in seen:
                return {'?'}
            defs = [a.value for a in _own_nodes(m.node)
                    if isinstance(a, ast.Assign) and
                    any(isinstance(t, ast.Name) and t.id == e.id
                        for t in a.targets)]
            if not defs:
                return {'?'}
            out = set()
            for v in defs:
                out |= feed(m, v, True, seen | {('name', e.id)})
            return out
        if isinstance(e, ast.Call):
            if isinstance(e.func, ast.Attribute) and \
                    e.func.attr in PILOT_GETTER.values() and \
                    prog.find_method(session, e.func.attr) is not None:
                return {e.func.attr}
            fn = dotted(e.func)
            if (is_url(m, e.func) or fn in COPIES) and len(e.args) == 1 \
                    and not e.keywords:
                return feed(m, e.args[0], local, seen)
        return {'?'}

    # the methods which bind context dicts to instance attributes
    evals = {}

    def attr_dicts():
        if 'done' in evals:
            return evals['done']
        seed = {}
        for name, m in sorted(methods.items()):
            if name in PILOT_PWD_METHODS:
                continue
            binds = any(isinstance(v, (ast.Dict, ast.Call, ast.BinOp))
                        for a, vs in stores.items()
                        for sm, v in vs if sm is m and v is not None)
            if not binds:
                continue
            ev = SelfCtxEval(prog, m, cls)
            for k, d in ev.dicts.items():
                if k.startswith('self.'):
                    if k in seed:
                        raise AnalysisError(
                            'UNRECOGNISED-IDIOM %s: the dict `%s` is bound in '
                            'more than one method' % (m.where, k))
                    seed[k] = (m, d)
        evals['done'] = seed
        return seed

    for mname in sorted(PILOT_PWD_METHODS):
        f = prog.method(PILOT[0], PILOT[1], mname)
        seed = attr_dicts()
        ev = SelfCtxEval(prog, f, cls,
                         seed={k: d for k, (m, d) in seed.items()})
        roles = {}
        for c in calls_in(ev.tree):
            callee = prog.resolve_call(f, c, cls)
            if callee is None or callee.module.rel != SD:
                continue
            if callee.name == 'complete_url':
                ctx = kwarg(c, 'context', 1)
                what = kwarg(c, 'path', 0)
                if ctx is None or what is None:
                    continue
                org = _origin_keys(f, what)
                if not org & {'source', 'target'}:
                    raise AnalysisError(
                        'UNRECOGNISED-IDIOM %s: `%s` completes neither a '
                        'directive source nor a target' % (f.where,
                                                           short(c, 60)))
                roles.setdefault('tgt' if 'target' in org else 'src',
                                 []).append((c, ctx))
            elif callee.name == 'expand_staging_directives':
                for role, kw, pos in (('src', 'src_context', 1),
                                      ('tgt', 'tgt_context', 2)):
                    ctx = kwarg(c, kw, pos)
                    if ctx is not None and not (
                            isinstance(ctx, ast.Constant) and
                            ctx.value is None):
                        roles.setdefault(role, []).append((c, ctx))
        for role in ('src', 'tgt'):
            part = 'source' if role == 'src' else 'target'
            if role not in roles:
                known = {id(c) for v in roles.values() for c, _ in v}
                for c in calls_in(ev.tree):
                    if id(c) not in known and \
                       any(isinstance(a, ast.Name) and a.id in ev.dicts
                           for a in list(c.args) +
                           [k.value for k in c.keywords]):
                        raise AnalysisError(
                            'UNRECOGNISED-IDIOM %s: a context dict is handed '
                            'to `%s`, which is not complete_url / '
                            'expand_staging_directives' % (f.where,
                                                           short(c, 50)))
                rep.bad(rid, f, '%s:not completed' % role,
                        'Pilot.%s does not complete the %s of its directives '
                        'with a context: sandbox schemas and relative paths '
                        'reach the stager unresolved' % (mname, part), f.loc(),
                        history="pilot.%s([{'source': 'a.dat', 'target': "
                        "'b.dat'}])" % mname)
                continue
            for c, ctx in roles[role]:
                table = ev.as_dict(ctx)
                if table is None or '?' in table:
                    raise AnalysisError(
                        'UNRECOGNISED-IDIOM %s: the %s context `%s` %s'
                        % (f.where, role, short(ctx, 40),
                           'is not built as a dict the recogniser can follow'
                           if table is None else 'has computed keys'))
                owner = f
                if isinstance(ctx, ast.Name) and ctx.id in seed and \
                        table == seed[ctx.id][1]:
                    owner = seed[ctx.id][0]
                want = dict(PILOT_GETTER)
                want['pwd'] = PILOT_GETTER[PILOT_PWD[(mname, role)]]
                for k, getter in sorted(want.items()):
                    what = 'Pilot.%s %s context `%s`: %r is fed by Session.%s' \
                        % (mname, role, short(ctx, 30), k, getter)
                    if k not in table:
                        rep.bad(rid, f, '%s:%s missing' % (role, k),
                                'Pilot.%s: the context `%s` which completes '
                                'the %s of a directive has no entry %r: %s'
                                % (mname, short(ctx, 30), part, k,
                                   'a relative path is resolved against the '
                                   'working directory of the process'
                                   if k == 'pwd' else
                                   'URLs with schema %s:// are left '
                                   'unresolved' % k), f.loc(c),
                                history="pilot.%s with a directive whose %s "
                                "is %s" % (mname, part, "'data/x.dat'"
                                           if k == 'pwd' else
                                           "'%s:///x.dat'" % k))
                        continue
                    got = feed(owner, table[k][1], True)
                    if '?' in got:
                        raise AnalysisError(
                            'UNRECOGNISED-IDIOM %s: entry %r of the context '
                            '`%s` (`%s`) is not a value handed out by a '
                            'Session sandbox getter'
                            % (f.where, k, short(ctx, 30),
                               short(table[k][1], 40)))
                    if k == 'pwd':
                        side = PILOT_PWD[(mname, role)]
                        other = 'pilot' if side == 'client' else 'client'
                        rep.check(got == {getter}, rid, f, what,
                                  construct='%s:pwd' % role,
                                  message='Pilot.%s completes the %s of a '
                                  'directive (`%s`) with the context `%s` '
                                  'whose `pwd` is the value of Session.%s; '
                                  'documented is the %s sandbox '
                                  '(Session.%s): a %s without schema is '
                                  'looked up relative to the wrong '
                                  'sandbox (explicit schemas resolve the '
                                  'same in both contexts)'
                                  % (mname, part, short(c, 60),
                                     short(ctx, 30),
                                     ' / '.join(sorted(got)), side, getter,
                                     part), loc=f.loc(c),
                                  history="pilot.%s([{'source': "
                                  "'results.dat', 'target': 'fetched/"
                                  "results.dat'}]): the relative %s is "
                                  "resolved against the %s sandbox instead "
                                  "of the %s sandbox"
                                  % (mname, part, other, side))
                    else:
                        rep.check(got == {getter}, rid, f, what,
                                  construct='%s:%s' % (role, k),
                                  message='Pilot.%s: entry %r of the %s '
                                  'context `%s` is the value of Session.%s, '
                                  'documented is Session.%s: %s:// URLs '
                                  'resolve to another sandbox'
                                  % (mname, k, role, short(ctx, 30),
                                     ' / '.join(sorted(got)), getter, k),
                                  loc=f.loc(c),
                                  history="pilot.%s with a directive whose "
                                  "%s is '%s:///x.dat'" % (mname, part, k))


PILOT_PWD_METHODS = {m for m, _ in PILOT_PWD}


KEY_HISTORY = {
    'stage_on_error': 'a task with stage_on_error=True and output_staging '
        'directives which exits non-zero: the agent output stager skips the '
        'directives although staging on error was requested',
}


def run(prog, rep, tier):
    rep.decided = ('over the finite domain of the six action constants: every '
        'action admitted by a stager\'s intake filter reaches a helper/tar '
        'operation in its handler and is accepted by the helper; client and '
        'agent stager together take every action; the helper dispatch is '
        'exhaustive over what it accepts and delegates to the same-named '
        'backend operation; both backends implement every delegated operation '
        'with a body that has an effect; the short-form dispatch (if/elif '
        'chain or loop over a constant operator table, first or last match) '
        'has an entry for each of `>>` `>` `<<` `<`, no entry is shadowed by '
        'one whose token it contains, each entry splits at its own token '
        'with the documented orientation; string '
        'and dict form expand to the same keys; the eight src/tgt context '
        'tables carry every schema from the task entry of that name with the '
        'documented pwd; output stagers skip tasks which are not DONE unless '
        'stage_on_error is set; an admitted directive is passed over '
        'without a staging operation only under tests of its action (or the '
        'tarball-name test of TARBALL directives), a branch which raises is a '
        'refusal; the Session getters which return objects of self._cache '
        'are not changed through a name bound to their result; an exception '
        'of the staging operation of a directive leaves the per-task handler '
        '(or the task is failed there) on every except path which is '
        'feasible for a task whose target_state is DONE; the tarball of '
        'TARBALL directives carries member names relative to one location '
        '(absolute = relative to `/`) and the agent unpacks it under that '
        'location; every facade / backend operation of the staging helper '
        'passes its file system effect on every path which ends without an '
        'exception (no early return decided by instance state); a call-out '
        'of the helper which reports failure in its return value '
        '(ru.sh_callout, subprocess.call/run, os.system) has its result '
        'consumed and cannot end the operation normally for a failing exit '
        'status; the context dict a stager passes to complete_url / '
        'expand_staging_directives for a source (target) carries the '
        'documented source (target) table, whatever the dict is called; '
        'complete_url extends the URL of a context entry by the path '
        'component of its parsed argument; the directory a backend '
        'operation makes in front of its effect is a parent of the '
        'directive\'s target, never the target itself; the skip test of the '
        'output stagers is evaluated for given values of target_state / '
        'stage_on_error also when it is no plain comparison (`(x or DONE) '
        '!= DONE`), goes through a local computed from them or through a '
        'one-line helper; an attribute which only the task description '
        'carries (stage_on_error) is read from the description, not from '
        'the task dict next to it; the per-task worker of each stager runs '
        'under a catch-all handler inside the loop over the tasks which '
        'records the error on that task, fails that task and does not '
        'raise (R05.4 of C05 re-evaluated); Pilot.stage_in / stage_out '
        'complete source and target with contexts whose pwd and schema '
        'entries are the values of the Session getter of the documented '
        'sandbox; complete_url does not pass the path component of its '
        'argument through a call which drops a trailing `/`; complete_url '
        'changes in place only objects it made itself (no reaching '
        'definition binds the changed name to the context or one of its '
        'entries uncopied); between an except clause around the per-task '
        'worker of a stager and the end of that loop iteration the task is '
        'handed on as FAILED only.')
    rep.undecided = ('file contents and remote transfers; that the backend '
        'operations do what their names say (cp/mv/ln semantics, SAGA); '
        'exceptions swallowed inside '
        'StagingHelper or its backends; retry loops and failures which are '
        'noted and raised later stop the analysis; exit codes of call-outs '
        'outside of the staging helper (the bulk mkdir of the client input '
        'stager only logs the status of its remote `tar xvf`).')
    rep.assumptions = [
        'the action of a directive is read as sd[\'action\'] (or a local name '
        'bound to it) and compared with constants; tests on anything else are '
        'unconstrained',
        'a staging effect is a call on the attribute holding the '
        'StagingHelper, or add/extract on an object from tarfile.open()',
        'lists derived from the collected directives by a call '
        '(expand_staging_directives) carry the same actions',
        'output directives with action DOWNLOAD/TARBALL are not claimed '
        '(DESIGN R11.2)',
        'a redirection token is recognised by `<token> in <string>` / `not '
        'in`; a table loop is a `for` over a foldable constant whose rows '
        'bind the token',
        'a handler around a staging operation fails the task by '
        'advance(task, FAILED) or (output stagers) by storing FAILED into '
        'target_state; everything else which ends normally drops the error',
        'tarfile.add() removes the leading `/` of a member name and '
        'extractall(path) places every member below `path` (stdlib)',
        'in a helper backend every call which is not logging, a str / '
        'os.path / ru.Url computation or book-keeping on a container '
        'attribute counts as (part of) the effect of the operation',
        'ru.sh_callout returns (stdout, stderr, exit status) and does not '
        'raise for a command which fails (radical.utils); failing exit '
        'statuses are sampled as 1, 2, 127, 255, -9',
        'ru.Url(x).path, str(), os.path.normpath/abspath keep the location '
        'a value names; os.path.dirname / os.path.split()[0] name its parent',
    ]
    r11_1(prog, rep)
    r11_1b(prog, rep)
    r11_2(prog, rep)
    r11_3(prog, rep)
    r11_4(prog, rep)
    r11_5(prog, rep)
    r11_6(prog, rep)
    r11_6b(prog, rep)
    r11_7(prog, rep)
    r11_8(prog, rep)
    r11_9(prog, rep)
    rep.attempt(r11_10, prog, rep)
    rep.attempt(r11_11, prog, rep)
    rep.attempt(r11_12, prog, rep)
    rep.attempt(r11_13, prog, rep)
    rep.attempt(r11_14, prog, rep)
    rep.attempt(r11_15, prog, rep)
    # "a directive that cannot be carried out fails that task only": the
    # per-task isolation rule of C05 (catch-all handler around the per-task
    # worker inside the loop, which records the error on that task and hands
    # that task on as FAILED), re-evaluated here for the four stagers
    rep.attempt(r11_16, prog, rep)
    rep.attempt(r11_17, prog, rep)
    if tier == 'thorough':
        r11_4s(prog, rep)
        r11_6b(prog, rep, rid='R11.6s', sweep=True)


# ------------------------------------------------------------------------------
# self-test variants (thorough tier / --selftest)
#
_AI = 'agent/staging_input/default.py'
_AO = 'agent/staging_output/default.py'
_TI = 'tmgr/staging_input/default.py'
_TO = 'tmgr/staging_output/default.py'
_H  = 'utils/staging_helper.py'

# the agent input guard as it is after the F06 repair
_GUARD = "            if action not in [rpc.COPY, rpc.LINK, rpc.MOVE, rpc.DOWNLOAD,\n                              rpc.TARBALL]:"

MUTATIONS = [
    dict(name='R11.1 F06 reverted: TARBALL removed from the agent guard', rules=('R11.1',), edits=[
        (_AI, _GUARD, "            if action not in [rpc.COPY, rpc.LINK, rpc.MOVE, rpc.DOWNLOAD]:")]),
    dict(name='R11.1 MOVE dropped from the agent input guard', rules=('R11.1',), edits=[
        (_AI, _GUARD, "            if action not in [rpc.COPY, rpc.LINK, rpc.DOWNLOAD,\n                              rpc.TARBALL]:")]),
    dict(name='R11.1 agent output guard loses LINK', rules=('R11.1',), edits=[
        (_AO, "            if action not in [rpc.COPY, rpc.LINK, rpc.MOVE]:",
              "            if action not in [rpc.COPY, rpc.MOVE]:")]),
    dict(name='R11.1 untar branch tests the wrong constant', rules=('R11.1',), edits=[
        (_AI, "            if action == rpc.TARBALL:\n", "            if action == rpc.TRANSFER:\n")],
         note='TARBALL directives then reach handle_staging_directive, which refuses them'),
    dict(name='R11.1 helper no longer accepts DOWNLOAD', rules=('R11.1',), edits=[
        (_H, "        assert action in [COPY, LINK, MOVE, TRANSFER, DOWNLOAD]",
             "        assert action in [COPY, LINK, MOVE, TRANSFER]")]),
    dict(name='R11.1 agent input guard polarity flipped', rules=('R11.1',), edits=[
        (_AI, _GUARD, "            if action in [rpc.COPY, rpc.LINK, rpc.MOVE, rpc.DOWNLOAD,\n                          rpc.TARBALL]:")]),
    dict(name='R11.1 untar branch dropped, tarballs go to the helper', rules=('R11.1',), edits=[
        (_AI, "            if action == rpc.TARBALL:\n", "            if False:\n")]),
    dict(name='R11.1b seed C11-b: COPY/LINK skipped when the target file exists', rules=('R11.1b',), edits=[
        (_AI, "                assert tgt.schema == 'file', 'staging tgt expected as file://'\n\n            if action == rpc.TARBALL:",
              "                assert tgt.schema == 'file', 'staging tgt expected as file://'\n\n            if action in [rpc.COPY, rpc.LINK] and os.path.isfile(tgt.path):\n                self._log.debug('%s: %s exists, skip', did, tgt.path)\n                self._prof.prof('staging_in_skip', uid=uid, msg=did)\n                continue\n\n            if action == rpc.TARBALL:")]),
    dict(name='R11.1b agent output skips directives whose source is missing', rules=('R11.1b',), edits=[
        (_AO, "            assert src.schema == 'file', 'staging src must be file://'\n",
              "            assert src.schema == 'file', 'staging src must be file://'\n\n            if not os.path.exists(src.path):\n                self._log.warn('%s: no such file %s', did, src.path)\n                continue\n")]),
    dict(name='R11.1b client intake takes only directives with flags', rules=('R11.1b',), edits=[
        (_TI, "                if sd['action'] in [rpc.TRANSFER, rpc.TARBALL]:",
              "                if sd['action'] in [rpc.TRANSFER, rpc.TARBALL] and sd.get('flags'):")]),
    dict(name='R11.1b client output stages only when the helper call is enabled by a flag', rules=('R11.1b',), edits=[
        (_TO, "            self._stager.handle_staging_directive(sd)\n            self._prof.prof('staging_in_stop', uid=uid, msg=sd['uid'])\n\n        # all staging is done -- at this point the task is final",
              "            if sd['flags'] & rpc.CREATE_PARENTS:\n                self._stager.handle_staging_directive(sd)\n            self._prof.prof('staging_in_stop', uid=uid, msg=sd['uid'])\n\n        # all staging is done -- at this point the task is final")]),
    dict(name='R11.6b seed C11-a: session sandbox appended to the cached resource sandbox', rules=('R11.6b',), edits=[
        ('session.py', "                resource_sandbox      = self._get_resource_sandbox(pilot)\n                session_sandbox       = ru.Url(resource_sandbox)\n                session_sandbox.path += '/%s' % self.uid",
                       "                session_sandbox       = self._get_resource_sandbox(pilot)\n                session_sandbox.path += '/%s' % self.uid")]),
    dict(name='R11.6b endpoint fs cleared on the cached resource sandbox', rules=('R11.6b',), edits=[
        ('session.py', "                endpoint_fs       = ru.Url(resource_sandbox)\n", "                endpoint_fs       = resource_sandbox\n")]),
    dict(name='R11.6b pilot sandbox appended to the cached session sandbox', rules=('R11.6b',), edits=[
        ('session.py', "                pilot_sandbox       = ru.Url(session_sandbox)\n", "                pilot_sandbox       = session_sandbox\n")]),
    dict(name='R11.6b default task sandbox built on the cached pilot sandbox', rules=('R11.6b',), edits=[
        ('session.py', "            task_sandbox = ru.Url(self._get_pilot_sandbox(pilot))\n            task_sandbox.path += \"/%s/\" % task['uid']",
                       "            task_sandbox = self._get_pilot_sandbox(pilot)\n            task_sandbox.path += \"/%s/\" % task['uid']")]),
    dict(name='R11.8 temporary file no longer closed before the transfer', rules=('R11.8',), edits=[
        (_TI, "            tar_file.close()\n            tmp_file.close()\n", "            tar_file.close()\n")]),
    dict(name='R11.8 temporary file closed only after the transfer', rules=('R11.8',), edits=[
        (_TI, "            tar_file.close()\n            tmp_file.close()\n", "            tar_file.close()\n"),
        (_TI, "            assert tar_path\n", "            tmp_file.close()\n            assert tar_path\n")]),
    dict(name='R11.8 temporary file flushed before the tarfile is closed', rules=('R11.8',), edits=[
        (_TI, "            tar_file.close()\n            tmp_file.close()\n", "            tmp_file.flush()\n            tar_file.close()\n")]),
    dict(name='R11.8 tarfile never closed', rules=('R11.8',), edits=[
        (_TI, "            tar_file.close()\n            tmp_file.close()\n", "            tmp_file.close()\n")]),
    dict(name='R11.3 dict dispatch without MOVE', rules=('R11.3',), edits=[
        (_H, "        if action in [COPY, TRANSFER]:\n            self.copy(src, tgt, flags)\n\n        elif action == LINK:\n            self.link(src, tgt, flags)\n\n        elif action == MOVE:\n            self.move(src, tgt, flags)\n\n        elif action in [DOWNLOAD]:\n            self.download(src, tgt, flags)\n",
             "        handlers = {COPY    : self.copy,\n                    TRANSFER: self.copy,\n                    LINK    : self.link,\n                    DOWNLOAD: self.download}\n\n        handler = handlers.get(action)\n        if handler:\n            handler(src, tgt, flags)\n")]),
    dict(name='R11.6 target context derived with dict() but the wrong pwd', rules=('R11.6',), edits=[
        (_TO, "        tgt_context = {'pwd'      : task['client_sandbox'],     # !\n                       'client'   : task['client_sandbox'],\n                       'task'     : task['task_sandbox'],\n                       'pilot'    : task['pilot_sandbox'],\n                       'session'  : task['session_sandbox'],\n                       'resource' : task['resource_sandbox'],\n                       'endpoint' : task['endpoint_fs']}\n",
              "        tgt_context = dict(src_context)\n")]),
    dict(name='R11.2 comprehension intake filters on COPY', rules=('R11.2',), edits=[
        (_TO, "            actionables = list()\n            for sd in task['description'].get('output_staging', []):\n\n                if sd['action'] == rpc.TRANSFER:\n                    actionables.append(sd)\n",
              "            out_sds     = task['description'].get('output_staging', [])\n            actionables = [sd for sd in out_sds if sd['action'] == rpc.COPY]\n")]),
    dict(name='R11.2 agent intake filter loses DOWNLOAD', rules=('R11.2',), edits=[
        (_AI, "                if sd['action'] in [rpc.LINK, rpc.COPY, rpc.MOVE,\n                                    rpc.TARBALL, rpc.DOWNLOAD]:",
              "                if sd['action'] in [rpc.LINK, rpc.COPY, rpc.MOVE,\n                                    rpc.TARBALL]:")]),
    dict(name='R11.2 client output stager filters on COPY', rules=('R11.2',), edits=[
        (_TO, "                if sd['action'] == rpc.TRANSFER:", "                if sd['action'] == rpc.COPY:")]),
    dict(name='R11.2 client input filter negated', rules=('R11.2',), edits=[
        (_TI, "                if sd['action'] in [rpc.TRANSFER, rpc.TARBALL]:",
              "                if sd['action'] not in [rpc.TRANSFER, rpc.TARBALL]:")]),
    dict(name='R11.2 TARBALL constant collides with TRANSFER', rules=('R11.2',), edits=[
        ('constants.py', "TARBALL  = 'Tarball' ", "TARBALL  = 'Transfer'")]),
    dict(name='R11.3 MOVE branch tests LINK again', rules=('R11.3',), edits=[
        (_H, "        elif action == MOVE:", "        elif action == LINK:")]),
    dict(name='R11.3 LINK carried out as copy', rules=('R11.3',), edits=[
        (_H, "            self.link(src, tgt, flags)", "            self.copy(src, tgt, flags)")]),
    dict(name='R11.3 facade move delegates to backend copy', rules=('R11.3',), edits=[
        (_H, "        self._backend.move(src, tgt, flags)", "        self._backend.copy(src, tgt, flags)")]),
    dict(name='R11.4 SAGA download loses its copy', rules=('R11.4',), edits=[
        (_H, "        assert self._has_saga\n\n        self.copy(src, tgt, flags)\n", "        assert self._has_saga\n")]),
    dict(name='R11.4 local backend without rmdir', rules=('R11.4',), edits=[
        (_H, "    def rmdir(self, tgt, flags):\n        tgt = ru.Url(tgt).path\n        os.rmdir(tgt)\n", "")]),
    dict(name='R11.5 single > tested before >>', rules=('R11.5',), edits=[
        (SD, "            if   '>>' in sd: src, tgt = sd.split('>>', 2)\n            elif '>'  in sd: src, tgt = sd.split('>' , 2)\n",
             "            if   '>'  in sd: src, tgt = sd.split('>' , 2)\n            elif '>>' in sd: src, tgt = sd.split('>>', 2)\n")]),
    dict(name='R11.5 << branch splits at <', rules=('R11.5',), edits=[
        (SD, "            elif '<<' in sd: tgt, src = sd.split('<<', 2)", "            elif '<<' in sd: tgt, src = sd.split('<', 2)")]),
    dict(name='R11.5 < form read in the wrong direction', rules=('R11.5',), edits=[
        (SD, "            elif '<'  in sd: tgt, src = sd.split('<' , 2)", "            elif '<'  in sd: src, tgt = sd.split('<' , 2)")]),
    dict(name='R11.5 string form expands without flags', rules=('R11.5',), edits=[
        (SD, "                    'action'          : DEFAULT_ACTION,\n                    'flags'           : DEFAULT_FLAGS,\n",
             "                    'action'          : DEFAULT_ACTION,\n")]),
    dict(name='R11.6 client output resolves relative targets in the task sandbox', rules=('R11.6',), edits=[
        (_TO, "        tgt_context = {'pwd'      : task['client_sandbox'],     # !",
              "        tgt_context = {'pwd'      : task['task_sandbox'],       # !")]),
    dict(name='R11.6 agent input: pilot:// resolves to the session sandbox', rules=('R11.6',), edits=[
        (_AI, "        src_context = {'pwd'      : str(task_sandbox),       # !!!\n                       'task'     : str(task_sandbox),\n                       'pilot'    : str(pilot_sandbox),",
              "        src_context = {'pwd'      : str(task_sandbox),       # !!!\n                       'task'     : str(task_sandbox),\n                       'pilot'    : str(session_sandbox),")]),
    dict(name='R11.6 agent output target context without resource', rules=('R11.6',), edits=[
        (_AO, "                       'session'  : str(session_sandbox),\n                       'resource' : str(resource_sandbox),\n                       'endpoint' : str(endpoint_fs)}\n\n\n        # we can now",
              "                       'session'  : str(session_sandbox),\n                       'endpoint' : str(endpoint_fs)}\n\n\n        # we can now")]),
    dict(name='R11.6 agent output: session sandbox variable built from the pilot sandbox', rules=('R11.6',), edits=[
        (_AO, "        session_sandbox  = ru.Url(task['session_sandbox'])", "        session_sandbox  = ru.Url(task['pilot_sandbox'])")]),
    dict(name='R11.7 agent stages failed tasks unless stage_on_error', rules=('R11.7',), edits=[
        (_AO, "                        and not task['description'].get('stage_on_error'):",
              "                        and task['description'].get('stage_on_error'):")]),
    dict(name='R11.7 client output skip test inverted', rules=('R11.7',), edits=[
        (_TO, "            if target_state and target_state != rps.DONE:", "            if target_state and target_state == rps.DONE:")]),
    dict(name='R11.7 client output skip without continue', rules=('R11.7',), edits=[
        (_TO, "                no_staging_tasks.append(task)\n                continue\n\n            # check if we have any staging directives",
              "                no_staging_tasks.append(task)\n\n            # check if we have any staging directives")]),
]

SILENT = [
    dict(name='agent input guard in `not (.. in ..)` form', edits=[
        (_AI, _GUARD, "            if not (action in [rpc.COPY, rpc.LINK, rpc.MOVE, rpc.DOWNLOAD,\n                               rpc.TARBALL]):")]),
    dict(name='agent input guard as a chain of comparisons', edits=[
        (_AI, _GUARD, "            if action != rpc.COPY and action != rpc.LINK and \\\n               action != rpc.MOVE and action != rpc.DOWNLOAD and \\\n               action != rpc.TARBALL:")]),
    dict(name='a test which only logs, both branches stage', edits=[
        (_AI, "                assert tgt.schema == 'file', 'staging tgt expected as file://'\n\n            if action == rpc.TARBALL:",
              "                assert tgt.schema == 'file', 'staging tgt expected as file://'\n\n            if os.path.isfile(tgt.path):\n                self._log.debug('%s: overwrite %s', did, tgt.path)\n\n            if action == rpc.TARBALL:")]),
    dict(name='tarball name test with swapped operands', edits=[
        (_AI, "                if os.path.basename(tgt.path) != '%s.tar' % uid:", "                if '%s.tar' % uid != os.path.basename(tgt.path):")]),
    dict(name='missing source refused with an exception (not skipped)', edits=[
        (_AO, "            assert src.schema == 'file', 'staging src must be file://'\n",
              "            assert src.schema == 'file', 'staging src must be file://'\n\n            if not os.path.exists(src.path):\n                raise ValueError('no such file: %s' % src.path)\n")]),
    dict(name='cached resource sandbox copied through its string', edits=[
        ('session.py', "                session_sandbox       = ru.Url(resource_sandbox)\n", "                session_sandbox       = ru.Url(str(resource_sandbox))\n")]),
    dict(name='getter result re-bound to a copy under the same name', edits=[
        ('session.py', "                resource_sandbox      = self._get_resource_sandbox(pilot)\n                session_sandbox       = ru.Url(resource_sandbox)\n                session_sandbox.path += '/%s' % self.uid",
                       "                session_sandbox       = self._get_resource_sandbox(pilot)\n                session_sandbox       = ru.Url(session_sandbox)\n                session_sandbox.path += '/%s' % self.uid")]),
    dict(name='temporary file flushed instead of closed', edits=[
        (_TI, "            tmp_file.close()\n", "            tmp_file.flush()\n")]),
    dict(name='tarball closed under `is not None`', edits=[
        (_TI, "        if tar_file:\n            tar_file.close()\n", "        if tar_file is not None:\n            tar_file.close()\n")]),
    dict(name='corpus C11-r2: helper dispatch through a dict of bound methods', edits=[
        (_H, "        if action in [COPY, TRANSFER]:\n            self.copy(src, tgt, flags)\n\n        elif action == LINK:\n            self.link(src, tgt, flags)\n\n        elif action == MOVE:\n            self.move(src, tgt, flags)\n\n        elif action in [DOWNLOAD]:\n            self.download(src, tgt, flags)\n",
             "        handlers = {COPY    : self.copy,\n                    TRANSFER: self.copy,\n                    LINK    : self.link,\n                    MOVE    : self.move,\n                    DOWNLOAD: self.download}\n\n        handler = handlers.get(action)\n        if handler:\n            handler(src, tgt, flags)\n")]),
    dict(name='corpus C11-r4: target context derived with dict(src_context, pwd=..)', edits=[
        (_TO, "        tgt_context = {'pwd'      : task['client_sandbox'],     # !\n                       'client'   : task['client_sandbox'],\n                       'task'     : task['task_sandbox'],\n                       'pilot'    : task['pilot_sandbox'],\n                       'session'  : task['session_sandbox'],\n                       'resource' : task['resource_sandbox'],\n                       'endpoint' : task['endpoint_fs']}\n",
              "        tgt_context = dict(src_context, pwd=task['client_sandbox'])     # !\n")]),
    dict(name='corpus C11-r4: intake filter as a list comprehension', edits=[
        (_TO, "            actionables = list()\n            for sd in task['description'].get('output_staging', []):\n\n                if sd['action'] == rpc.TRANSFER:\n                    actionables.append(sd)\n",
              "            out_sds     = task['description'].get('output_staging', [])\n            actionables = [sd for sd in out_sds if sd['action'] == rpc.TRANSFER]\n")]),
    dict(name='intake filter in early-continue form', edits=[
        (_AO, "                    if sd['action'] in [rpc.LINK, rpc.COPY, rpc.MOVE]:\n                        actionables.append(sd)\n",
              "                    if sd['action'] not in [rpc.LINK, rpc.COPY, rpc.MOVE]:\n                        continue\n                    actionables.append(sd)\n")]),
    dict(name='helper dispatch with == and or', edits=[
        (_H, "        if action in [COPY, TRANSFER]:", "        if action == COPY or action == TRANSFER:"),
        (_H, "        elif action in [DOWNLOAD]:", "        elif action == DOWNLOAD:")]),
    dict(name='client output reads target_state inline', edits=[
        (_TO, "            if target_state and target_state != rps.DONE:",
              "            if task.get('target_state') and task.get('target_state') != rps.DONE:")]),
    dict(name='< forms tested before > forms', edits=[
        (SD, "            if   '>>' in sd: src, tgt = sd.split('>>', 2)\n            elif '>'  in sd: src, tgt = sd.split('>' , 2)\n            elif '<<' in sd: tgt, src = sd.split('<<', 2)\n            elif '<'  in sd: tgt, src = sd.split('<' , 2)\n",
             "            if   '<<' in sd: tgt, src = sd.split('<<', 2)\n            elif '<'  in sd: tgt, src = sd.split('<' , 2)\n            elif '>>' in sd: src, tgt = sd.split('>>', 2)\n            elif '>'  in sd: src, tgt = sd.split('>' , 2)\n")]),
    dict(name='context entry through a local name', edits=[
        (_AI, "        src_context = {'pwd'      : str(task_sandbox),       # !!!",
              "        cwd = str(task_sandbox)\n        src_context = {'pwd'      : cwd,")]),
    dict(name='skip on failure as nested ifs', edits=[
        (_AO, "                if task['target_state'] != rps.DONE \\\n                        and not task['description'].get('stage_on_error'):\n                    task['state'] = task['target_state']\n                    self._log.debug('task %s skips staging: %s', uid, task['state'])\n                    no_staging_tasks.append(task)\n                    continue\n",
              "                if task['target_state'] != rps.DONE:\n                    if not task['description'].get('stage_on_error'):\n                        task['state'] = task['target_state']\n                        no_staging_tasks.append(task)\n                        continue\n")]),
    dict(name='untar moved into a method of the stager', edits=[
        (_AI, "                tar = tarfile.open(tarball)\n                tar.extractall(path='/')\n                tar.close()\n",
              "                self._untar(tarball)\n"),
        (_AI, "    # --------------------------------------------------------------------------\n    #\n    def _handle_task_staging(self, task, actionables):\n",
              "    # --------------------------------------------------------------------------\n    #\n    def _untar(self, tarball):\n        tar = tarfile.open(tarball)\n        tar.extractall(path='/')\n        tar.close()\n\n\n    # --------------------------------------------------------------------------\n    #\n    def _handle_task_staging(self, task, actionables):\n")]),
    dict(name='SAGA backend refuses what it cannot do', edits=[
        (_H, "    def link(self, src, tgt, flags):\n        assert self._has_saga\n",
             "    def link(self, src, tgt, flags):\n        assert self._has_saga\n        raise NotImplementedError('link')\n")]),
]


# ------------------------------------------------------------------------------
# behaviour-preserving refactorings of the robustness corpus (seeded/<id>-r<n>),
# as text edits: silent as they are, killed with a defect on top
#
_CORPUS = {
    'C11-r1': [
        ('staging_directives.py',
         '\nfrom .constants import DEFAULT_ACTION, DEFAULT_FLAGS, DEFAULT_PRIORITY\n\n\n# ------------------------------------------------------------------------------\n#\n',
         "\nfrom .constants import DEFAULT_ACTION, DEFAULT_FLAGS, DEFAULT_PRIORITY\n\n# keys which are valid on a dictionary staging directive\n_VALID_SD_KEYS = ['source', 'target', 'action', 'flags', 'priority', 'uid']\n\n\n# ------------------------------------------------------------------------------\n#\n"),
        ('staging_directives.py',
         '\n        if isinstance(sd, str):\n\n            # We detected a string, convert into dict.  The interpretation\n            # differs depending of redirection characters being present in the\n            # string.\n\n            if   \'>>\' in sd: src, tgt = sd.split(\'>>\', 2)\n            elif \'>\'  in sd: src, tgt = sd.split(\'>\' , 2)\n            elif \'<<\' in sd: tgt, src = sd.split(\'<<\', 2)\n            elif \'<\'  in sd: tgt, src = sd.split(\'<\' , 2)\n            else           : src, tgt = sd, os.path.basename(ru.Url(sd).path)\n\n            # FIXME: ns = session ID\n            expanded = {\n                    \'uid\'             : ru.generate_id(\'sd\', ru.ID_SIMPLE),\n                    \'source\'          : src.strip(),\n                    \'target\'          : tgt.strip(),\n                    \'action\'          : DEFAULT_ACTION,\n                    \'flags\'           : DEFAULT_FLAGS,\n                    \'priority\'        : DEFAULT_PRIORITY,\n            }\n\n        elif isinstance(sd, dict):\n\n            # sanity check on dict syntax\n            valid_keys = [\'source\', \'target\', \'action\', \'flags\', \'priority\',\n                          \'uid\']\n\n            for k in sd.keys():\n                if k not in valid_keys:\n                    raise ValueError(\'"%s" is invalid on staging directive\' % k)\n\n            source   = sd.get(\'source\')\n',
         '\n        if isinstance(sd, str):\n\n            # We detected a string, convert into dict.\n            expanded = _expand_short_form(sd)\n\n        elif isinstance(sd, dict):\n\n            # sanity check on dict syntax\n            for k in sd.keys():\n                if k not in _VALID_SD_KEYS:\n                    raise ValueError(\'"%s" is invalid on staging directive\' % k)\n\n            source   = sd.get(\'source\')\n'),
        ('staging_directives.py',
         '    return ret\n\n\n# ------------------------------------------------------------------------------\n#\ndef complete_url(path   : str,\n',
         '    return ret\n\n\n# ------------------------------------------------------------------------------\n#\ndef _expand_short_form(sd: str) -> Dict[str, Any]:\n    """Convert a string directive into its dictionary equivalent.\n\n    The interpretation differs depending of redirection characters being\n    present in the string.\n    """\n\n    if   \'>>\' in sd: src, tgt = sd.split(\'>>\', 2)\n    elif \'>\'  in sd: src, tgt = sd.split(\'>\' , 2)\n    elif \'<<\' in sd: tgt, src = sd.split(\'<<\', 2)\n    elif \'<\'  in sd: tgt, src = sd.split(\'<\' , 2)\n    else           : src, tgt = sd, os.path.basename(ru.Url(sd).path)\n\n    # FIXME: ns = session ID\n    return {\'uid\'     : ru.generate_id(\'sd\', ru.ID_SIMPLE),\n            \'source\'  : src.strip(),\n            \'target\'  : tgt.strip(),\n            \'action\'  : DEFAULT_ACTION,\n            \'flags\'   : DEFAULT_FLAGS,\n            \'priority\': DEFAULT_PRIORITY}\n\n\n# ------------------------------------------------------------------------------\n#\ndef complete_url(path   : str,\n'),
    ],
    'C11-r3': [
        ('agent/staging_input/default.py',
         '    AGENT_SCHEDULING_PENDING state, into the agent_scheduling_queue.\n    """\n\n    # --------------------------------------------------------------------------\n    #\n    def __init__(self, cfg, session):\n',
         '    AGENT_SCHEDULING_PENDING state, into the agent_scheduling_queue.\n    """\n\n    # staging actions which are enacted by this component\n    _ACTIONS = [rpc.LINK, rpc.COPY, rpc.MOVE, rpc.TARBALL, rpc.DOWNLOAD]\n\n    # staging context names and the task entries they are derived from\n    _SANDBOXES = [(\'task\'    , \'task_sandbox\'    ),\n                  (\'pilot\'   , \'pilot_sandbox\'   ),\n                  (\'session\' , \'session_sandbox\' ),\n                  (\'resource\', \'resource_sandbox\'),\n                  (\'endpoint\', \'endpoint_fs\'     )]\n\n\n    # --------------------------------------------------------------------------\n    #\n    def __init__(self, cfg, session):\n'),
        ('agent/staging_input/default.py',
         "\n            # check if we have any staging directives to be enacted in this\n            # component\n            actionables = list()\n            for sd in task['description'].get('input_staging', []):\n\n                if sd['action'] in [rpc.LINK, rpc.COPY, rpc.MOVE,\n                                    rpc.TARBALL, rpc.DOWNLOAD]:\n                    actionables.append(sd)\n\n            if actionables:\n                staging_tasks.append([task, actionables])\n",
         "\n            # check if we have any staging directives to be enacted in this\n            # component\n            actionables = [sd for sd\n                              in task['description'].get('input_staging', [])\n                              if sd['action'] in self._ACTIONS]\n\n            if actionables:\n                staging_tasks.append([task, actionables])\n"),
        ('agent/staging_input/default.py',
         "\n    # --------------------------------------------------------------------------\n    #\n    def _handle_task_staging(self, task, actionables):\n\n        uid = task['uid']\n\n        # By definition, this compoentn lives on the pilot's target resource.\n        # As such, we *know* that all staging ops which would refer to the\n",
         "\n    # --------------------------------------------------------------------------\n    #\n    def _get_contexts(self, task):\n\n        # By definition, this compoentn lives on the pilot's target resource.\n        # As such, we *know* that all staging ops which would refer to the\n"),
        ('agent/staging_input/default.py',
         "        #\n        # FIXME: URL creation and manipulation is costly and should be cached\n\n        task_sandbox     = ru.Url(task['task_sandbox'])\n        pilot_sandbox    = ru.Url(task['pilot_sandbox'])\n        session_sandbox  = ru.Url(task['session_sandbox'])\n        resource_sandbox = ru.Url(task['resource_sandbox'])\n        endpoint_fs      = ru.Url(task['endpoint_fs'])\n\n        task_sandbox.schema     = 'file'\n        pilot_sandbox.schema    = 'file'\n        session_sandbox.schema  = 'file'\n        resource_sandbox.schema = 'file'\n        endpoint_fs.schema      = 'file'\n\n        task_sandbox.host       = 'localhost'\n        pilot_sandbox.host      = 'localhost'\n        session_sandbox.host    = 'localhost'\n        resource_sandbox.host   = 'localhost'\n        endpoint_fs.host        = 'localhost'\n\n        src_context = {'pwd'      : str(task_sandbox),       # !!!\n                       'task'     : str(task_sandbox),\n                       'pilot'    : str(pilot_sandbox),\n                       'session'  : str(session_sandbox),\n                       'resource' : str(resource_sandbox),\n                       'endpoint' : str(endpoint_fs)}\n        tgt_context = {'pwd'      : str(task_sandbox),       # !!!\n                       'task'     : str(task_sandbox),\n                       'pilot'    : str(pilot_sandbox),\n                       'session'  : str(session_sandbox),\n                       'resource' : str(resource_sandbox),\n                       'endpoint' : str(endpoint_fs)}\n\n\n        # we can now handle the actionable staging directives\n        for sd in actionables:\n",
         "        #\n        # FIXME: URL creation and manipulation is costly and should be cached\n\n        context = {'pwd': None}\n        for name, key in self._SANDBOXES:\n            url           = ru.Url(task[key])\n            url.schema    = 'file'\n            url.host      = 'localhost'\n            context[name] = str(url)\n\n        context['pwd'] = context['task']       # !!!\n\n        # source and target are interpreted in the same context\n        return context, dict(context)\n\n\n    # --------------------------------------------------------------------------\n    #\n    def _handle_task_staging(self, task, actionables):\n\n        uid = task['uid']\n\n        src_context, tgt_context = self._get_contexts(task)\n\n        # we can now handle the actionable staging directives\n        for sd in actionables:\n"),
        ('agent/staging_input/default.py',
         "            self._prof.prof('staging_in_start', uid=uid, msg=did)\n\n            # agent stager only handles local actions\n            if action not in [rpc.COPY, rpc.LINK, rpc.MOVE, rpc.DOWNLOAD,\n                              rpc.TARBALL]:\n                self._prof.prof('staging_in_skip', uid=uid, msg=did)\n                continue\n\n",
         "            self._prof.prof('staging_in_start', uid=uid, msg=did)\n\n            # agent stager only handles local actions\n            if action not in self._ACTIONS:\n                self._prof.prof('staging_in_skip', uid=uid, msg=did)\n                continue\n\n"),
    ],
}

SILENT += [dict(name='corpus %s' % k, edits=v) for k, v in sorted(_CORPUS.items())]

# the short-form chain of expand_staging_directives and table driven rewrites
_CHAIN = ("            if   '>>' in sd: src, tgt = sd.split('>>', 2)\n"
          "            elif '>'  in sd: src, tgt = sd.split('>' , 2)\n"
          "            elif '<<' in sd: tgt, src = sd.split('<<', 2)\n"
          "            elif '<'  in sd: tgt, src = sd.split('<' , 2)\n"
          "            else           : src, tgt = sd, os.path.basename(ru.Url(sd).path)\n")
_IMPORT = "from .constants import DEFAULT_ACTION, DEFAULT_FLAGS, DEFAULT_PRIORITY\n"


def _op_table(rows):
    return _IMPORT + "\n_SD_OPERATORS = (%s)\n" % ', '.join(
        '(%r, %r)' % r for r in rows)


# the seed: partition at the first table entry contained in the string
_LOOP_PARTITION = (
    "            src, tgt = sd, None\n"
    "            for op, forward in _SD_OPERATORS:\n"
    "                if op in sd:\n"
    "                    lhs, _, rhs = sd.partition(op)\n"
    "                    src, tgt    = (lhs, rhs) if forward else (rhs, lhs)\n"
    "                    break\n"
    "\n"
    "            if tgt is None:\n"
    "                tgt = os.path.basename(ru.Url(sd).path)\n")
# same split as the chain; %s = 'break' or nothing
_LOOP_SPLIT = (
    "            src, tgt = sd, None\n"
    "            for op, forward in _SD_OPERATORS:\n"
    "                if op in sd:\n"
    "                    if forward: src, tgt = sd.split(op, 2)\n"
    "                    else      : tgt, src = sd.split(op, 2)\n"
    "%s"
    "\n"
    "            if tgt is None:\n"
    "                src, tgt = sd, os.path.basename(ru.Url(sd).path)\n")
_LOOP_CONTINUE = (
    "            operators = [('>>', 0), ('>', 0), ('<<', 1), ('<', 1)]\n"
    "            src, tgt  = sd, None\n"
    "            for row in operators:\n"
    "                if row[0] not in sd:\n"
    "                    continue\n"
    "                parts = sd.split(row[0], 2)\n"
    "                src, tgt = parts[row[1]], parts[1 - row[1]]\n"
    "                break\n"
    "\n"
    "            if tgt is None:\n"
    "                src, tgt = sd, os.path.basename(ru.Url(sd).path)\n")

_RIGHT = (('>>', True), ('>', True), ('<<', False), ('<', False))
_SEED  = (('>', True), ('>>', True), ('<', False), ('<<', False))
_LAST  = (('<', False), ('<<', False), ('>', True), ('>>', True))

# the helper calls of the directive loops
_AO_CALL = ("            self._stager.handle_staging_directive({'source': src,\n"
            "                                                   'target': tgt,\n"
            "                                                   'action': action,\n"
            "                                                   'flags' : flags})\n"
            "\n\n"
            "            self._prof.prof('staging_out_stop', uid=uid, msg=did)\n")
_AO_CALL_I = ("                self._stager.handle_staging_directive({'source': src,\n"
              "                                                       'target': tgt,\n"
              "                                                       'action': action,\n"
              "                                                       'flags' : flags})\n")
_AO_STOP = "\n\n            self._prof.prof('staging_out_stop', uid=uid, msg=did)\n"
_AI_CALL = ("            else:\n\n"
            "                self._stager.handle_staging_directive({'source': src,\n"
            "                                                       'target': tgt,\n"
            "                                                       'action': action,\n"
            "                                                       'flags' : flags})\n")
_AI_CALL_I = ("                    self._stager.handle_staging_directive({'source': src,\n"
              "                                                           'target': tgt,\n"
              "                                                           'action': action,\n"
              "                                                           'flags' : flags})\n")
_TO_CALL = "            self._stager.handle_staging_directive(sd)\n            self._prof.prof('staging_in_stop', uid=uid, msg=sd['uid'])\n\n        # all staging is done -- at this point the task is final"
_AO_LOOP = "        # we can now handle the actionable staging directives\n        for sd in actionables:\n\n            action = sd['action']\n            flags  = sd['flags']\n"
_AO_DEF  = "    # --------------------------------------------------------------------------\n    #\n    def _handle_task_staging(self, task, actionables):\n"

MUTATIONS += [
    dict(name='R11.5 seed C11-c: operator table lists > before >> and < before <<', rules=('R11.5',), edits=[
        (SD, _IMPORT, _op_table(_SEED)), (SD, _CHAIN, _LOOP_PARTITION)]),
    dict(name='R11.5 operator table in chain order, but the loop goes on after a match', rules=('R11.5',), edits=[
        (SD, _IMPORT, _op_table(_RIGHT)), (SD, _CHAIN, _LOOP_SPLIT % '')],
         note="'a >> b': the later '>' row overrides the '>>' row"),
    dict(name='R11.5 local operator list with > first, early-continue form', rules=('R11.5',), edits=[
        (SD, _CHAIN, _LOOP_CONTINUE.replace("[('>>', 0), ('>', 0),", "[('>', 0), ('>>', 0),"))]),
    dict(name='R11.5 operator table reads << forward', rules=('R11.5',), edits=[
        (SD, _IMPORT, _op_table((('>>', True), ('>', True), ('<<', True), ('<', False)))),
        (SD, _CHAIN, _LOOP_PARTITION)]),
    dict(name='R11.5 chain without an entry for <<', rules=('R11.5',), edits=[
        (SD, "            elif '<<' in sd: tgt, src = sd.split('<<', 2)\n", "")]),
    dict(name='R11.5 operator table without >>', rules=('R11.5',), edits=[
        (SD, _IMPORT, _op_table((('>', True), ('<<', False), ('<', False)))),
        (SD, _CHAIN, _LOOP_PARTITION)]),
    dict(name='R11.9 seed C11-d: failed output directive skipped for every stage_on_error task', rules=('R11.9',), edits=[
        (_AO, _AO_CALL,
              "            try:\n" + _AO_CALL_I +
              "            except Exception:\n"
              "                if not task['description'].get('stage_on_error'):\n"
              "                    raise\n"
              "                self._log.warn('%s: skip staging of %s (%s)', uid, src, did)\n"
              "                self._prof.prof('staging_out_skip', uid=uid, msg=did)\n"
              "                continue\n" + _AO_STOP)]),
    dict(name='R11.9 agent input: a directive which fails is logged and the loop goes on', rules=('R11.9',), edits=[
        (_AI, _AI_CALL,
              "            else:\n\n                try:\n" + _AI_CALL_I +
              "                except Exception as e:\n"
              "                    self._log.error('staging of %s failed: %s', did, e)\n")]),
    dict(name='R11.9 client output: OSError of the transfer ignored', rules=('R11.9',), edits=[
        (_TO, _TO_CALL,
              "            try:\n                self._stager.handle_staging_directive(sd)\n"
              "            except OSError:\n                pass\n"
              "            self._prof.prof('staging_in_stop', uid=uid, msg=sd['uid'])\n\n"
              "        # all staging is done -- at this point the task is final")]),
    dict(name='R11.9 agent output: tolerance guarded by the wrong outcome (task DONE)', rules=('R11.9',), edits=[
        (_AO, _AO_CALL,
              "            try:\n" + _AO_CALL_I +
              "            except Exception:\n"
              "                if task['target_state'] != rps.DONE:\n"
              "                    raise\n"
              "                self._log.warn('%s: skip staging of %s (%s)', uid, src, did)\n"
              "                continue\n" + _AO_STOP)]),
    dict(name='R11.9 agent output: helper call moved into a method which swallows the error', rules=('R11.9',), edits=[
        (_AO, _AO_CALL,
              "            self._stage_one({'source': src,\n"
              "                             'target': tgt,\n"
              "                             'action': action,\n"
              "                             'flags' : flags})\n" + _AO_STOP),
        (_AO, _AO_DEF,
              "    # --------------------------------------------------------------------------\n    #\n"
              "    def _stage_one(self, sd):\n"
              "        try:\n"
              "            self._stager.handle_staging_directive(sd)\n"
              "        except Exception:\n"
              "            self._log.exception('staging failed: %s', sd)\n\n\n" + _AO_DEF)]),
]


SILENT += [
    dict(name='short forms through an operator table in chain order, first match', edits=[
        (SD, _IMPORT, _op_table(_RIGHT)), (SD, _CHAIN, _LOOP_SPLIT % '                    break\n')]),
    dict(name='seed C11-c repaired: partition at the first entry of a table in chain order', edits=[
        (SD, _IMPORT, _op_table(_RIGHT)), (SD, _CHAIN, _LOOP_PARTITION)]),
    dict(name='short forms through an operator table, last match wins, short tokens first', edits=[
        (SD, _IMPORT, _op_table(_LAST)), (SD, _CHAIN, _LOOP_SPLIT % '')]),
    dict(name='short forms through a local operator list, early-continue form, indexed parts', edits=[
        (SD, _CHAIN, _LOOP_CONTINUE)]),
    dict(name='short forms through a reversed operator table', edits=[
        (SD, _IMPORT, _op_table(tuple(reversed(_RIGHT)))),
        (SD, _CHAIN, (_LOOP_SPLIT % '                    break\n').replace(
            'in _SD_OPERATORS:', 'in reversed(_SD_OPERATORS):'))]),
    dict(name='short form chain as nested if / else with negated tests', edits=[
        (SD, _CHAIN,
         "            if '>>' not in sd:\n"
         "                if '>' in sd:\n"
         "                    src, tgt = sd.split('>' , 2)\n"
         "                elif not '<<' in sd:\n"
         "                    if '<' in sd: tgt, src = sd.split('<' , 2)\n"
         "                    else        : src, tgt = sd, os.path.basename(ru.Url(sd).path)\n"
         "                else:\n"
         "                    tgt, src = sd.split('<<', 2)\n"
         "            else:\n"
         "                src, tgt = sd.split('>>', 2)\n")]),
    dict(name='valid key test of dict directives in early-continue form', edits=[
        (SD, "                if k not in valid_keys:\n                    raise ValueError('\"%s\" is invalid on staging directive' % k)\n",
             "                if k in valid_keys:\n                    continue\n                raise ValueError('\"%s\" is invalid on staging directive' % k)\n")]),
    dict(name='agent output: staging error logged and raised again', edits=[
        (_AO, _AO_CALL,
              "            try:\n" + _AO_CALL_I +
              "            except Exception as e:\n"
              "                self._log.error('%s: staging of %s failed: %s', uid, did, e)\n"
              "                raise\n" + _AO_STOP)]),
    dict(name='agent output: stop event profiled in a finally clause', edits=[
        (_AO, _AO_CALL,
              "            try:\n" + _AO_CALL_I +
              "            finally:\n"
              "                self._prof.prof('staging_out_stop', uid=uid, msg=did)\n")]),
    dict(name='seed C11-d repaired: failed directives tolerated only for tasks which are not DONE', edits=[
        (_AO, _AO_CALL,
              "            try:\n" + _AO_CALL_I +
              "            except Exception:\n"
              "                if task['target_state'] == rps.DONE or \\\n"
              "                        not task['description'].get('stage_on_error'):\n"
              "                    raise\n"
              "                self._log.warn('%s: skip staging of %s (%s)', uid, src, did)\n"
              "                self._prof.prof('staging_out_skip', uid=uid, msg=did)\n"
              "                continue\n" + _AO_STOP)]),
    dict(name='seed C11-d repaired, outcome test hoisted in front of the directive loop', edits=[
        (_AO, _AO_LOOP,
              "        tolerant = task['target_state'] != rps.DONE and \\\n"
              "                   task['description'].get('stage_on_error')\n\n" + _AO_LOOP),
        (_AO, _AO_CALL,
              "            try:\n" + _AO_CALL_I +
              "            except Exception:\n"
              "                if tolerant:\n"
              "                    self._log.warn('%s: skip staging of %s (%s)', uid, src, did)\n"
              "                    continue\n"
              "                raise\n" + _AO_STOP)]),
    dict(name='agent output: failing directive fails the task in the handler', edits=[
        (_AO, _AO_CALL,
              "            try:\n" + _AO_CALL_I +
              "            except Exception as e:\n"
              "                task['exception'] = repr(e)\n"
              "                self.advance(task, rps.FAILED, publish=True, push=False)\n"
              "                return\n" + _AO_STOP)]),
    dict(name='agent output: helper call moved into a method which logs and re-raises', edits=[
        (_AO, _AO_CALL,
              "            self._stage_one({'source': src,\n"
              "                             'target': tgt,\n"
              "                             'action': action,\n"
              "                             'flags' : flags})\n" + _AO_STOP),
        (_AO, _AO_DEF,
              "    # --------------------------------------------------------------------------\n    #\n"
              "    def _stage_one(self, sd):\n"
              "        try:\n"
              "            self._stager.handle_staging_directive(sd)\n"
              "        except Exception:\n"
              "            self._log.exception('staging failed: %s', sd)\n"
              "            raise\n\n\n" + _AO_DEF)]),
    dict(name='client output: directive loop with renamed loop variable, stop event first computed', edits=[
        (_TO, "        for sd in actionables:\n            self._prof.prof('staging_in_start', uid=uid, msg=sd['uid'])\n            self._stager.handle_staging_directive(sd)\n            self._prof.prof('staging_in_stop', uid=uid, msg=sd['uid'])\n",
              "        for directive in actionables:\n            did = directive['uid']\n            self._prof.prof('staging_in_start', uid=uid, msg=did)\n            self._stager.handle_staging_directive(directive)\n            self._prof.prof('staging_in_stop', uid=uid, msg=did)\n")]),
]

MUTATIONS += [
    dict(name='R11.5 corpus C11-r1, extracted short form splits << at <', rules=('R11.5',), edits=_CORPUS['C11-r1'] + [
        (SD, "    elif '<<' in sd: tgt, src = sd.split('<<', 2)", "    elif '<<' in sd: tgt, src = sd.split('<', 2)")]),
    dict(name='R11.5 corpus C11-r1, module constant of valid keys loses flags', rules=('R11.5',), edits=_CORPUS['C11-r1'] + [
        (SD, "_VALID_SD_KEYS = ['source', 'target', 'action', 'flags', 'priority', 'uid']", "_VALID_SD_KEYS = ['source', 'target', 'action', 'priority', 'uid']")]),
    dict(name='R11.6 corpus C11-r3, sandbox table feeds pilot from the session sandbox', rules=('R11.6',), edits=_CORPUS['C11-r3'] + [
        (_AI, "                  ('pilot'   , 'pilot_sandbox'   ),", "                  ('pilot'   , 'session_sandbox' ),")]),
    dict(name='R11.6 corpus C11-r3, pwd taken from the pilot entry', rules=('R11.6',), edits=_CORPUS['C11-r3'] + [
        (_AI, "        context['pwd'] = context['task']       # !!!", "        context['pwd'] = context['pilot']      # !!!")]),
    dict(name='R11.2 corpus C11-r3, class table of actions loses DOWNLOAD', rules=('R11.2',), edits=_CORPUS['C11-r3'] + [
        (_AI, "    _ACTIONS = [rpc.LINK, rpc.COPY, rpc.MOVE, rpc.TARBALL, rpc.DOWNLOAD]", "    _ACTIONS = [rpc.LINK, rpc.COPY, rpc.MOVE, rpc.TARBALL]")]),
]


# ------------------------------------------------------------------------------
# R11.10 / R11.11 (round 3: seeds C11-e, C11-f)
#
_TI_ADD   = "                tar_file.add(src.path, arcname=tgt.path)\n"
_AI_XALL  = "                tar.extractall(path='/')\n"
_AI_UNTAR = ("                tar = tarfile.open(tarball)\n"
             "                tar.extractall(path='/')\n"
             "                tar.close()\n")
_TI_DEF   = ("    # --------------------------------------------------------------------------\n"
             "    #\n"
             "    def _handle_task(self, task, actionables):\n")
_H_LOCAL_INIT = ("class StagingHelper_Local(object):\n\n"
                 "    def __init__(self, log):\n"
                 "        self._log = log\n")
_H_LOCAL_INIT_DIRS = ("class StagingHelper_Local(object):\n\n"
                      "    def __init__(self, log):\n"
                      "        self._log  = log\n"
                      "        self._dirs = set()\n")
_H_MKDIR = ("    def mkdir(self, tgt, flags):\n"
            "        self._log.debug('mkdir %s', tgt)\n"
            "        tgt = ru.Url(tgt).path\n"
            "        ru.rec_makedir(tgt)\n")
_H_RMDIR = ("    def rmdir(self, tgt, flags):\n"
            "        tgt = ru.Url(tgt).path\n"
            "        os.rmdir(tgt)\n")
# F22: the local copy looks at the exit status of cp (applied first wherever a
# variant edits the copy: `make_overlay` takes an edit which is already in the
# tree as applied, so the variants work before and after the repair is committed)
_F22 = ('utils/staging_helper.py',
        "        ru.sh_callout('cp -r %s %s' % (src, tgt))\n",
        "        out, err, ret = ru.sh_callout('cp -r %s %s' % (src, tgt))\n"
        "        if ret:\n"
        "            raise RuntimeError('copy failed: %s -> %s: %s' % (src, tgt, err))\n")
_H_CALL  = "        out, err, ret = ru.sh_callout('cp -r %s %s' % (src, tgt))\n"
_H_CHECK = ("        if ret:\n"
            "            raise RuntimeError('copy failed: %s -> %s: %s' % (src, tgt, err))\n")
_H_CP    = ("        self.mkdir(os.path.dirname(tgt), flags)\n" + _H_CALL)
_H_FACADE_INIT  = "        self._log  = log\n\n        try   : self._backend"
_H_FACADE_MKDIR = ("    def mkdir(self, tgt, flags=None):\n"
                   "        self._log.debug('mkdir %s', tgt)\n"
                   "        self._backend.mkdir(tgt, flags)\n")

MUTATIONS += [
    dict(name='R11.10 seed C11-e: members relative to the task sandbox when inside it, agent unpacks in the task sandbox', rules=('R11.10',), edits=[
        (_TI, _TI_ADD,
              "                arcname = tgt.path\n"
              "                if arcname.startswith(sandbox.path):\n"
              "                    arcname = arcname[len(sandbox.path):]\n\n"
              "                tar_file.add(src.path, arcname=arcname)\n"),
        (_AI, _AI_XALL, "                tar.extractall(path=task_sandbox.path)\n")]),
    dict(name='R11.10 agent alone unpacks in the task sandbox', rules=('R11.10',), edits=[
        (_AI, _AI_XALL, "                tar.extractall(path=task_sandbox.path)\n")],
         note='members carry absolute paths: everything lands below <task sandbox>/<abs path>'),
    dict(name='R11.10 agent unpacks in the pilot sandbox', rules=('R11.10',), edits=[
        (_AI, _AI_XALL, "                tar.extractall(path=pilot_sandbox.path)\n")]),
    dict(name='R11.10 agent unpacks in its working directory', rules=('R11.10',), edits=[
        (_AI, _AI_XALL, "                tar.extractall()\n")]),
    dict(name='R11.10 client alone names members relative to the task sandbox', rules=('R11.10',), edits=[
        (_TI, _TI_ADD, "                tar_file.add(src.path, arcname=os.path.relpath(tgt.path, sandbox.path))\n")],
         note='the agent still unpacks on /'),
    dict(name='R11.10 conditional member name as one expression (removeprefix)', rules=('R11.10',), edits=[
        (_TI, _TI_ADD, "                tar_file.add(src.path, arcname=tgt.path.removeprefix(sandbox.path))\n"),
        (_AI, _AI_XALL, "                tar.extractall(path=task_sandbox.path)\n")]),
    dict(name='R11.10 conditional member name as a conditional expression', rules=('R11.10',), edits=[
        (_TI, _TI_ADD,
              "                inside = tgt.path.startswith(sandbox.path)\n"
              "                tar_file.add(src.path, arcname=(tgt.path[len(sandbox.path):]\n"
              "                                                if inside else tgt.path))\n"),
        (_AI, _AI_XALL, "                tar.extractall(path=task_sandbox.path)\n")]),
    dict(name='R11.10 member named by the source path (arcname dropped)', rules=('R11.10',), edits=[
        (_TI, _TI_ADD, "                tar_file.add(src.path)\n")]),
    dict(name='R11.11 seed C11-f: local backend remembers the directories it created', rules=('R11.11',), edits=[
        (_H, _H_LOCAL_INIT, _H_LOCAL_INIT_DIRS),
        (_H, _H_MKDIR,
             "    def mkdir(self, tgt, flags):\n"
             "        tgt = ru.Url(tgt).path\n"
             "        if tgt in self._dirs:\n"
             "            return\n"
             "        self._log.debug('mkdir %s', tgt)\n"
             "        ru.rec_makedir(tgt)\n"
             "        self._dirs.add(tgt)\n"),
        (_H, _H_RMDIR,
             "    def rmdir(self, tgt, flags):\n"
             "        tgt = ru.Url(tgt).path\n"
             "        os.rmdir(tgt)\n"
             "        self._dirs.discard(tgt)\n")]),
    dict(name='R11.11 directory cache as a guarded effect (no early return)', rules=('R11.11',), edits=[
        (_H, _H_LOCAL_INIT, _H_LOCAL_INIT_DIRS),
        (_H, _H_MKDIR,
             "    def mkdir(self, tgt, flags):\n"
             "        tgt = ru.Url(tgt).path\n"
             "        if tgt not in self._dirs:\n"
             "            self._log.debug('mkdir %s', tgt)\n"
             "            ru.rec_makedir(tgt)\n"
             "            self._dirs.add(tgt)\n")]),
    dict(name='R11.11 directory cache asked through a predicate method', rules=('R11.11',), edits=[
        (_H, _H_LOCAL_INIT, _H_LOCAL_INIT_DIRS),
        (_H, _H_MKDIR,
             "    def _seen(self, path):\n"
             "        return path in self._dirs\n\n"
             "    def mkdir(self, tgt, flags):\n"
             "        tgt = ru.Url(tgt).path\n"
             "        if self._seen(tgt):\n"
             "            return\n"
             "        ru.rec_makedir(tgt)\n"
             "        self._dirs.add(tgt)\n")]),
    dict(name='R11.11 sibling site: copy skips the parent mkdir for directories it has seen', rules=('R11.11',), edits=[
        (_H, _H_LOCAL_INIT, _H_LOCAL_INIT_DIRS),
        _F22,
        (_H, _H_CP,
             "        parent = os.path.dirname(tgt)\n"
             "        if parent not in self._dirs:\n"
             "            self.mkdir(parent, flags)\n"
             "            self._dirs.add(parent)\n" + _H_CALL)]),
    dict(name='R11.11 facade remembers the directories it was asked for', rules=('R11.11',), edits=[
        (_H, _H_FACADE_INIT, "        self._log  = log\n        self._made = set()\n\n        try   : self._backend"),
        (_H, _H_FACADE_MKDIR,
             "    def mkdir(self, tgt, flags=None):\n"
             "        if str(tgt) in self._made:\n"
             "            return\n"
             "        self._made.add(str(tgt))\n"
             "        self._log.debug('mkdir %s', tgt)\n"
             "        self._backend.mkdir(tgt, flags)\n")]),
]

SILENT += [
    dict(name='member name with the leading slash stripped by hand (what tarfile.add does)', edits=[
        (_TI, _TI_ADD, "                tar_file.add(src.path, arcname=tgt.path.lstrip('/'))\n")]),
    dict(name='member name through a local', edits=[
        (_TI, _TI_ADD, "                member = tgt.path\n                tar_file.add(src.path, arcname=member)\n")]),
    dict(name='extraction root os.sep through a local, passed by position', edits=[
        (_AI, _AI_XALL, "                root = os.sep\n                tar.extractall(root)\n")]),
    dict(name='tarball unpacked in a with block', edits=[
        (_AI, _AI_UNTAR,
              "                with tarfile.open(tarball) as tar:\n"
              "                    tar.extractall(path='/')\n")]),
    dict(name='both sites changed consistently: every member relative to the task sandbox, unpacked there', edits=[
        (_TI, _TI_ADD, "                tar_file.add(src.path, arcname=os.path.relpath(tgt.path, sandbox.path))\n"),
        (_AI, _AI_XALL, "                tar.extractall(path=task_sandbox.path)\n")]),
    dict(name='both sites consistent, sandbox prefix cut by length after a refusal of outside targets', edits=[
        (_TI, _TI_ADD,
              "                if not tgt.path.startswith(sandbox.path):\n"
              "                    raise ValueError('tarball target outside of the task sandbox')\n"
              "                prefix = len(sandbox.path)\n"
              "                tar_file.add(src.path, arcname=tgt.path[prefix:])\n"),
        (_AI, _AI_XALL, "                tar.extractall(path=task_sandbox.path)\n")]),
    dict(name='packing moved into a method of the client stager', edits=[
        (_TI, _TI_ADD, "                self._pack(tar_file, src, tgt)\n"),
        (_TI, _TI_DEF,
              "    # --------------------------------------------------------------------------\n"
              "    #\n"
              "    def _pack(self, tar_file, src, tgt):\n"
              "        tar_file.add(src.path, arcname=tgt.path)\n\n\n" + _TI_DEF)]),
    dict(name='local mkdir remembers what it created but always goes to the file system', edits=[
        (_H, _H_LOCAL_INIT, _H_LOCAL_INIT_DIRS),
        (_H, _H_MKDIR,
             "    def mkdir(self, tgt, flags):\n"
             "        self._log.debug('mkdir %s', tgt)\n"
             "        tgt = ru.Url(tgt).path\n"
             "        ru.rec_makedir(tgt)\n"
             "        self._dirs.add(tgt)\n")]),
    dict(name='local mkdir: instance state decides only about a log line', edits=[
        (_H, _H_LOCAL_INIT, _H_LOCAL_INIT_DIRS),
        (_H, _H_MKDIR,
             "    def mkdir(self, tgt, flags):\n"
             "        tgt = ru.Url(tgt).path\n"
             "        if tgt in self._dirs:\n"
             "            self._log.debug('mkdir %s (again)', tgt)\n"
             "        else:\n"
             "            self._log.debug('mkdir %s', tgt)\n"
             "            self._dirs.add(tgt)\n"
             "        ru.rec_makedir(tgt)\n")]),
    dict(name='local mkdir with renamed local', edits=[
        (_H, _H_MKDIR,
             "    def mkdir(self, tgt, flags):\n"
             "        self._log.debug('mkdir %s', tgt)\n"
             "        path = ru.Url(tgt).path\n"
             "        ru.rec_makedir(path)\n")]),
    dict(name='local copy: parent directory through an extracted method', edits=[
        _F22,
        (_H, _H_CP + _H_CHECK,
             "        self._parent(tgt, flags)\n" + _H_CALL + _H_CHECK +
             "\n    def _parent(self, tgt, flags):\n"
             "        self.mkdir(os.path.dirname(tgt), flags)\n")]),
    dict(name='local delete tolerates OSError only', edits=[
        (_H, "        try   : os.unlink(tgt)\n        except: pass\n",
             "        try:\n            os.unlink(tgt)\n        except OSError:\n            pass\n")]),
    dict(name='local copy looks at the exit code of cp', edits=[_F22]),
]


# ------------------------------------------------------------------------------
# round 4: R11.6 per use (seed g3), R11.12 (exit status of call-outs, F22),
# R11.13 (complete_url, seed g2), R11.14 (parent directory, seed g6),
# refactorings r7 / r8
#
_CORPUS4 = {
    'C11-r7': [
        ('staging_directives.py',
         '# ------------------------------------------------------------------------------\n#\ndef expand_staging_directives(sds:         Union[str, Dict[str, Any], List[str]],\n                              src_context: Dict[str, str] = None,\n',
         '# ------------------------------------------------------------------------------\n#\n# Redirection operators of the string form, in the order in which they are\n# looked for (`>>` and `<<` need to be checked before `>` and `<`).  The flag\n# tells if the source is found on the left hand side of the operator.\n#\n_REDIRECTS = [(\'>>\', True ),\n              (\'>\' , True ),\n              (\'<<\', False),\n              (\'<\' , False)]\n\n\ndef _split_redirect(sd: str):\n    """Split a string directive into its `(source, target)` parts."""\n\n    for op, src_first in _REDIRECTS:\n\n        if op not in sd:\n            continue\n\n        lhs, rhs = sd.split(op, 2)\n\n        if src_first: return lhs, rhs\n        else        : return rhs, lhs\n\n    # no redirection: the target is named like the source\n    return sd, os.path.basename(ru.Url(sd).path)\n\n\n# ------------------------------------------------------------------------------\n#\ndef expand_staging_directives(sds:         Union[str, Dict[str, Any], List[str]],\n                              src_context: Dict[str, str] = None,\n'),
        ('staging_directives.py',
         "            # string.\n\n            if   '>>' in sd: src, tgt = sd.split('>>', 2)\n            elif '>'  in sd: src, tgt = sd.split('>' , 2)\n            elif '<<' in sd: tgt, src = sd.split('<<', 2)\n            elif '<'  in sd: tgt, src = sd.split('<' , 2)\n            else           : src, tgt = sd, os.path.basename(ru.Url(sd).path)\n\n            # FIXME: ns = session ID\n",
         '            # string.\n\n            src, tgt = _split_redirect(sd)\n\n            # FIXME: ns = session ID\n'),
        ('staging_directives.py',
         "        log.debug('  -> %s', purl)\n\n    if purl.schema not in list(context.keys()):\n\n        ret = purl\n",
         "        log.debug('  -> %s', purl)\n\n    schema = purl.schema\n\n    if schema not in list(context.keys()):\n\n        ret = purl\n"),
        ('staging_directives.py',
         '\n    else:\n\n        expand = True\n\n        # we expect hostname elements to be absent for schemas we expand\n',
         '\n    else:\n\n        # we expect hostname elements to be absent for schemas we expand\n'),
        ('staging_directives.py',
         "                raise\n\n        if purl.schema == 'file':\n            # we leave `file://` URLs unaltered\n            ret = purl\n            expand = False\n\n        elif purl.schema == 'pwd' and 'pwd' not in context:\n            ret = ru.Url(os.getcwd())\n\n        else:\n            ret = ru.Url(context[purl.schema])\n\n        if expand:\n            ret.path += '/%s' % purl.path\n\n        if expand:\n            if log:\n                log.debug('   expand with %s', context.get(purl.schema))\n\n    if log:\n",
         "                raise\n\n        if schema == 'file':\n            # we leave `file://` URLs unaltered\n            ret = purl\n\n        else:\n            if schema == 'pwd' and 'pwd' not in context:\n                ret = ru.Url(os.getcwd())\n            else:\n                ret = ru.Url(context[schema])\n\n            ret.path += '/%s' % purl.path\n\n            if log:\n                log.debug('   expand with %s', context.get(schema))\n\n    if log:\n"),
    ],
    'C11-r8': [
        ('tmgr/staging_input/default.py',
         'import tempfile\nimport tarfile\n\nimport radical.utils as ru\n',
         'import tempfile\nimport tarfile\n\nfrom collections import namedtuple\n\nimport radical.utils as ru\n'),
        ('tmgr/staging_input/default.py',
         "TASK_BULK_MKDIR_THRESHOLD = 1024 * 1024\nTASK_BULK_MKDIR_MECHANISM = 'tar'\n\n\n",
         "TASK_BULK_MKDIR_THRESHOLD = 1024 * 1024\nTASK_BULK_MKDIR_MECHANISM = 'tar'\n\n# client side state of the tarball which collects the TARBALL directives of\n# a task: the temporary file, its path, the tarfile writing to it, and the\n# staging directive which transfers it\nTarball = namedtuple('Tarball', ['tmp_file', 'path', 'tar_file', 'sd'])\n\n\n"),
        ('tmgr/staging_input/default.py',
         "            # check if we have any staging directives to be enacted in this\n            # component\n            actionables = list()\n            for sd in task['description'].get('input_staging', []):\n                if sd['action'] in [rpc.TRANSFER, rpc.TARBALL]:\n                    actionables.append(sd)\n\n            if actionables:\n",
         "            # check if we have any staging directives to be enacted in this\n            # component\n            actionables = [sd for sd\n                              in task['description'].get('input_staging', [])\n                              if sd['action'] in [rpc.TRANSFER, rpc.TARBALL]]\n\n            if actionables:\n"),
        ('tmgr/staging_input/default.py',
         '    # --------------------------------------------------------------------------\n    #\n    def _handle_task(self, task, actionables):\n\n',
         "    # --------------------------------------------------------------------------\n    #\n    def _open_tarball(self, uid):\n\n        # create a tarfile in a temporary file, and a directive to transfer it\n        # into the task sandbox\n        tmp_file = tempfile.NamedTemporaryFile(prefix='rp_usi_%s.' % uid,\n                                               suffix='.tar',\n                                               delete=False)\n        tar_path = tmp_file.name\n        tar_file = tarfile.open(fileobj=tmp_file, mode='w')\n        tar_src  = ru.Url('file://localhost/%s' % tar_path)\n        tar_tgt  = ru.Url('task:///%s.tar'      % uid)\n        tar_sd   = {'action' : rpc.TRANSFER,\n                    'flags'  : rpc.DEFAULT_FLAGS,\n                    'uid'    : ru.generate_id('sd'),\n                    'source' : str(tar_src),\n                    'target' : str(tar_tgt),\n                   }\n\n        return Tarball(tmp_file, tar_path, tar_file, tar_sd)\n\n\n    # --------------------------------------------------------------------------\n    #\n    def _handle_task(self, task, actionables):\n\n"),
        ('tmgr/staging_input/default.py',
         '        # create a new actionable list during the filtering\n        new_actionables = list()\n        tar_file        = None\n        tar_path        = None\n        tar_sd          = None\n\n        for sd in actionables:\n',
         '        # create a new actionable list during the filtering\n        new_actionables = list()\n        tarball         = None\n\n        for sd in actionables:\n'),
        ('tmgr/staging_input/default.py',
         "\n                # create a tarfile on the first match, and register for transfer\n                if not tar_file:\n                    tmp_file = tempfile.NamedTemporaryFile(\n                                                prefix='rp_usi_%s.' % uid,\n                                                suffix='.tar',\n                                                delete=False)\n                    tar_path = tmp_file.name\n                    tar_file = tarfile.open(fileobj=tmp_file, mode='w')\n                    tar_src  = ru.Url('file://localhost/%s' % tar_path)\n                    tar_tgt  = ru.Url('task:///%s.tar'      % uid)\n                    tar_did  = ru.generate_id('sd')\n                    tar_sd   = {'action' : rpc.TRANSFER,\n                                'flags'  : rpc.DEFAULT_FLAGS,\n                                'uid'    : tar_did,\n                                'source' : str(tar_src),\n                                'target' : str(tar_tgt),\n                               }\n                    new_actionables.append(tar_sd)\n\n                    self._log.debug('create tar sd %s', tar_sd)\n\n                # add the src file\n                tar_file.add(src.path, arcname=tgt.path)\n\n                self._prof.prof('staging_in_tar_stop',  uid=uid, msg=did)\n",
         "\n                # create a tarfile on the first match, and register for transfer\n                if not tarball:\n                    tarball = self._open_tarball(uid)\n                    new_actionables.append(tarball.sd)\n\n                    self._log.debug('create tar sd %s', tarball.sd)\n\n                # add the src file\n                tarball.tar_file.add(src.path, arcname=tgt.path)\n\n                self._prof.prof('staging_in_tar_stop',  uid=uid, msg=did)\n"),
        ('tmgr/staging_input/default.py',
         '        # make sure tarball is flushed to disk: closing the tarfile object does\n        # not flush or close the temporary file it writes to\n        if tar_file:\n            tar_file.close()\n            tmp_file.close()\n\n        new_actionables = expand_staging_directives(new_actionables,\n',
         '        # make sure tarball is flushed to disk: closing the tarfile object does\n        # not flush or close the temporary file it writes to\n        if tarball:\n            tarball.tar_file.close()\n            tarball.tmp_file.close()\n\n        new_actionables = expand_staging_directives(new_actionables,\n'),
        ('tmgr/staging_input/default.py',
         "            self._prof.prof('staging_in_stop', uid=uid, msg=sd['uid'])\n\n        if tar_file:\n\n            assert tar_path\n            assert tar_sd\n\n            # some tarball staging was done.  Add a staging directive for the\n            # agent to untar the tarball, and clean up.\n            tar_sd['action'] = rpc.TARBALL\n            task['description']['input_staging'].append(tar_sd)\n            os.remove(tar_path)\n\n\n",
         "            self._prof.prof('staging_in_stop', uid=uid, msg=sd['uid'])\n\n        if tarball:\n\n            assert tarball.path\n            assert tarball.sd\n\n            # some tarball staging was done.  Add a staging directive for the\n            # agent to untar the tarball, and clean up.\n            tarball.sd['action'] = rpc.TARBALL\n            task['description']['input_staging'].append(tarball.sd)\n            os.remove(tarball.path)\n\n\n"),
    ],
}

SILENT += [dict(name='corpus %s' % k, edits=v) for k, v in sorted(_CORPUS4.items())]

_TI_CURL = ("                src = complete_url(src, src_context, self._log)\n"
            "                tgt = complete_url(tgt, tgt_context, self._log)\n")
_TI_EXPAND = ("        new_actionables = expand_staging_directives(new_actionables,\n"
              "                                            src_context, tgt_context, self._log)\n")
_AI_CURL = ("            src = complete_url(src, src_context, self._log)\n"
            "            tgt = complete_url(tgt, tgt_context, self._log)\n")
_SD_APPEND = "            ret.path += '/%s' % purl.path\n"
_H_MOVE = ("        self.mkdir(os.path.dirname(tgt), flags)\n"
           "        shutil.move(src, tgt)\n")
_H_LINK = ("        self.mkdir(os.path.dirname(tgt), flags)\n"
           "        os.link(src, tgt)\n")
_H_DOWN = ("        self.mkdir(os.path.dirname(tgt), flags)\n"
           "        r = requests.get(src, stream=True)\n")
_H_IMPORT = "import os\nimport shutil\nimport requests\n"

MUTATIONS += [
    # --- R11.6: the context which completes a target is the target context
    dict(name='R11.6 seed C11-g3: tarball target completed with the source context', rules=('R11.6',), edits=[
        (_TI, _TI_CURL,
              "                src = complete_url(src, src_context, self._log)\n"
              "                tgt = complete_url(tgt, src_context, self._log)\n")]),
    dict(name='R11.6 tarball source completed with the target context', rules=('R11.6',), edits=[
        (_TI, _TI_CURL,
              "                src = complete_url(src, tgt_context, self._log)\n"
              "                tgt = complete_url(tgt, tgt_context, self._log)\n")],
         note='relative sources are looked up in the task sandbox instead of the client sandbox'),
    dict(name='R11.6 client transfer directives expanded with the target context twice', rules=('R11.6',), edits=[
        (_TI, _TI_EXPAND,
              "        new_actionables = expand_staging_directives(new_actionables,\n"
              "                                            tgt_context, tgt_context, self._log)\n")]),
    dict(name='R11.6 client transfer directives expanded with swapped contexts, by keyword', rules=('R11.6',), edits=[
        (_TI, _TI_EXPAND,
              "        new_actionables = expand_staging_directives(new_actionables,\n"
              "                              tgt_context=src_context, src_context=tgt_context,\n"
              "                              log=self._log)\n")]),
    dict(name='R11.6 corpus C11-r8, tarball target completed with the source context', rules=('R11.6',), edits=_CORPUS4['C11-r8'] + [
        (_TI, _TI_CURL,
              "                src = complete_url(src, src_context, self._log)\n"
              "                tgt = complete_url(tgt, src_context, self._log)\n")]),
    dict(name='R11.8 corpus C11-r8, temporary file of the tarball record never closed', rules=('R11.8',), edits=_CORPUS4['C11-r8'] + [
        (_TI, "            tarball.tmp_file.close()\n", "            pass\n")]),
    dict(name='R11.2 corpus C11-r8, comprehension filter loses TRANSFER', rules=('R11.2',), edits=_CORPUS4['C11-r8'] + [
        (_TI, "                              if sd['action'] in [rpc.TRANSFER, rpc.TARBALL]]",
              "                              if sd['action'] in [rpc.TARBALL]]")]),
    # --- R11.12: exit status of a call-out
    dict(name='R11.12 defect F22 of the pinned tree: local copy discards the result of cp', rules=('R11.12',), edits=[
        (_H, _H_CALL + _H_CHECK, "        ru.sh_callout('cp -r %s %s' % (src, tgt))\n")],
         note='the repair F22 undone'),
    dict(name='R11.12 sibling site: move by `mv` call-out, result discarded', rules=('R11.12',), edits=[
        (_H, _H_MOVE,
             "        self.mkdir(os.path.dirname(tgt), flags)\n"
             "        ru.sh_callout('mv %s %s' % (src, tgt))\n")]),
    dict(name='R11.12 exit status bound but only logged', rules=('R11.12',), edits=[
        _F22,
        (_H, _H_CHECK, "        self._log.debug('cp: %s %s %s', out, err, ret)\n")]),
    dict(name='R11.12 exit status tested with the wrong polarity', rules=('R11.12',), edits=[
        _F22,
        (_H, "        if ret:\n            raise RuntimeError('copy failed", "        if not ret:\n            raise RuntimeError('copy failed")]),
    dict(name='R11.12 exit status 1 passes (ret > 1)', rules=('R11.12',), edits=[
        _F22,
        (_H, "        if ret:\n            raise RuntimeError('copy failed", "        if ret > 1:\n            raise RuntimeError('copy failed")]),
    dict(name='R11.12 only positive exit codes fail (a command killed by a signal passes)', rules=('R11.12',), edits=[
        _F22,
        (_H, "        if ret:\n            raise RuntimeError('copy failed", "        if ret > 0:\n            raise RuntimeError('copy failed")],
         note='Popen.returncode is -N for a command killed by signal N'),
    dict(name='R11.12 failure needs both a status and a message on stderr', rules=('R11.12',), edits=[
        _F22,
        (_H, "        if ret:\n            raise RuntimeError('copy failed", "        if ret and err:\n            raise RuntimeError('copy failed")]),
    dict(name='R11.12 retry loop which gives up silently', rules=('R11.12',), edits=[
        _F22,
        (_H, _H_CALL + _H_CHECK,
             "        for attempt in range(3):\n"
             "            out, err, ret = ru.sh_callout('cp -r %s %s' % (src, tgt))\n"
             "            if not ret:\n"
             "                break\n")]),
    dict(name='R11.12 failure logged, not raised', rules=('R11.12',), edits=[
        _F22,
        (_H, _H_CHECK, "        if ret:\n            self._log.error('copy failed: %s -> %s: %s', src, tgt, err)\n")]),
    dict(name='R11.12 failure raised and swallowed in the same operation', rules=('R11.12',), edits=[
        _F22,
        (_H, _H_CHECK,
             "        try:\n"
             "            if ret:\n"
             "                raise RuntimeError('copy failed: %s -> %s: %s' % (src, tgt, err))\n"
             "        except Exception:\n"
             "            self._log.exception('copy failed')\n")]),
    dict(name='R11.12 stdout tested instead of the exit status', rules=('R11.12',), edits=[
        _F22,
        (_H, "        if ret:\n            raise RuntimeError('copy failed", "        if out:\n            raise RuntimeError('copy failed")]),
    dict(name='R11.12 wrong element of the result taken as status', rules=('R11.12',), edits=[
        _F22,
        (_H, _H_CALL + _H_CHECK,
             "        res = ru.sh_callout('cp -r %s %s' % (src, tgt))\n"
             "        if res[0]:\n"
             "            raise RuntimeError('copy failed: %s -> %s' % (src, tgt))\n")]),
    dict(name='R11.12 copy through subprocess.call, status discarded', rules=('R11.12',), edits=[
        _F22,
        (_H, _H_IMPORT, "import os\nimport shutil\nimport requests\nimport subprocess\n"),
        (_H, _H_CALL + _H_CHECK, "        subprocess.call(['cp', '-r', src, tgt])\n")]),
    dict(name='R11.12 copy through subprocess.run without check', rules=('R11.12',), edits=[
        _F22,
        (_H, _H_IMPORT, "import os\nimport shutil\nimport requests\nimport subprocess\n"),
        (_H, _H_CALL + _H_CHECK, "        subprocess.run(['cp', '-r', src, tgt], check=False)\n")]),
    dict(name='R11.12 status check only when debugging', rules=('R11.12',), edits=[
        _F22,
        (_H, "        if ret:\n            raise RuntimeError('copy failed", "        if ret and self._log.isEnabledFor(10):\n            raise RuntimeError('copy failed")]),
    # --- R11.13: complete_url appends the path component
    dict(name='R11.13 seed C11-g2: the argument appended instead of its path', rules=('R11.13',), edits=[
        (SD, _SD_APPEND, "            ret.path += '/%s' % path\n")]),
    dict(name='R11.13 the string of the argument appended', rules=('R11.13',), edits=[
        (SD, _SD_APPEND, "            ret.path += '/%s' % str_path\n")]),
    dict(name='R11.13 the whole parsed URL appended', rules=('R11.13',), edits=[
        (SD, _SD_APPEND, "            ret.path += '/%s' % purl\n")]),
    dict(name='R11.13 the whole parsed URL appended through a local and a plain assignment', rules=('R11.13',), edits=[
        (SD, _SD_APPEND, "            rel = str(purl)\n            ret.path = ret.path + '/' + rel\n")]),
    dict(name='R11.13 corpus C11-r7, the argument appended', rules=('R11.13',), edits=_CORPUS4['C11-r7'] + [
        (SD, _SD_APPEND, "            ret.path += '/%s' % path\n")]),
    dict(name='R11.13 path component dropped', rules=('R11.13',), edits=[
        (SD, _SD_APPEND, "            ret.path += '/'\n")],
         note='every sandbox URL resolves to the sandbox directory'),
    # --- R11.14: the directory made is the parent of the target
    dict(name='R11.14 seed C11-g6: local move makes the target itself a directory', rules=('R11.14',), edits=[
        (_H, _H_MOVE, "        self.mkdir(tgt, flags)\n        shutil.move(src, tgt)\n")]),
    dict(name='R11.14 sibling site: local link makes the target itself a directory', rules=('R11.14',), edits=[
        (_H, _H_LINK, "        self.mkdir(tgt, flags)\n        os.link(src, tgt)\n")]),
    dict(name='R11.14 sibling site: local copy, through a local name', rules=('R11.14',), edits=[
        _F22,
        (_H, _H_CP, "        where = tgt\n        self.mkdir(where, flags)\n" + _H_CALL)]),
    dict(name='R11.14 local download: os.makedirs on the target path', rules=('R11.14',), edits=[
        (_H, _H_DOWN, "        os.makedirs(tgt, exist_ok=True)\n        r = requests.get(src, stream=True)\n")]),
    dict(name='R11.14 local move: directory below the target', rules=('R11.14',), edits=[
        (_H, _H_MOVE, "        self.mkdir(os.path.join(tgt, os.path.basename(src)), flags)\n        shutil.move(src, tgt)\n")]),
]

SILENT += [
    # R11.6: one dict for both roles where the documented tables are the same
    dict(name='agent input stager: one context dict serves sources and targets (same documented table)', edits=[
        (_AI, _AI_CURL,
              "            context = src_context\n"
              "            src = complete_url(src, context, self._log)\n"
              "            tgt = complete_url(tgt, context, self._log)\n")]),
    dict(name='client tarball branch: contexts through renamed locals', edits=[
        (_TI, _TI_CURL,
              "                from_ctx, to_ctx = src_context, tgt_context\n"
              "                src = complete_url(src, from_ctx, self._log)\n"
              "                tgt = complete_url(tgt, to_ctx, self._log)\n")]),
    dict(name='client tarball branch: contexts by keyword, target first', edits=[
        (_TI, _TI_CURL,
              "                tgt = complete_url(path=tgt, context=tgt_context, log=self._log)\n"
              "                src = complete_url(path=src, context=src_context, log=self._log)\n")]),
    # R11.12
    dict(name='exit status compared with 0', edits=[
        _F22,
        (_H, "        if ret:\n            raise RuntimeError('copy failed", "        if ret != 0:\n            raise RuntimeError('copy failed")]),
    dict(name='exit status: whole result bound, status by index', edits=[
        _F22,
        (_H, _H_CALL + _H_CHECK,
             "        res = ru.sh_callout('cp -r %s %s' % (src, tgt))\n"
             "        if res[2]:\n"
             "            raise RuntimeError('copy failed: %s -> %s: %s' % (src, tgt, res[1]))\n")]),
    dict(name='exit status: index taken at the call', edits=[
        _F22,
        (_H, _H_CALL + _H_CHECK,
             "        rc = ru.sh_callout('cp -r %s %s' % (src, tgt))[2]\n"
             "        if rc:\n"
             "            raise RuntimeError('copy failed: %s -> %s' % (src, tgt))\n")]),
    dict(name='exit status: success returns early, failure logs and raises', edits=[
        _F22,
        (_H, _H_CHECK,
             "        if ret == 0:\n"
             "            return\n"
             "        self._log.error('copy failed: %s', err)\n"
             "        raise RuntimeError('copy failed: %s -> %s: %s' % (src, tgt, err))\n")]),
    dict(name='exit status: underscore for the unused parts, log between call and test', edits=[
        _F22,
        (_H, _H_CALL + _H_CHECK,
             "        _, err, rc = ru.sh_callout('cp -r %s %s' % (src, tgt))\n"
             "        self._log.debug('cp done: %s', rc)\n"
             "        if rc:\n"
             "            raise RuntimeError('copy failed: %s -> %s: %s' % (src, tgt, err))\n")]),
    dict(name='exit status: retry loop, break on success, raise after the last attempt', edits=[
        _F22,
        (_H, _H_CALL + _H_CHECK,
             "        for attempt in range(3):\n"
             "            out, err, ret = ru.sh_callout('cp -r %s %s' % (src, tgt))\n"
             "            if not ret:\n"
             "                break\n"
             "        if ret:\n"
             "            raise RuntimeError('copy failed: %s -> %s: %s' % (src, tgt, err))\n")]),
    dict(name='exit status: retry loop with for-else raise', edits=[
        _F22,
        (_H, _H_CALL + _H_CHECK,
             "        for attempt in range(3):\n"
             "            out, err, ret = ru.sh_callout('cp -r %s %s' % (src, tgt))\n"
             "            if not ret:\n"
             "                break\n"
             "        else:\n"
             "            raise RuntimeError('copy failed: %s -> %s: %s' % (src, tgt, err))\n")]),
    dict(name='exit status: through a boolean local, status in the message', edits=[
        _F22,
        (_H, _H_CHECK,
             "        failed = bool(ret)\n"
             "        if failed:\n"
             "            raise RuntimeError('copy failed [%s]: %s -> %s: %s' % (ret, src, tgt, err))\n")]),
    dict(name='exit status: copy skipped for identical paths, status defaults to 0', edits=[
        _F22,
        (_H, _H_CALL + _H_CHECK,
             "        ret, err = 0, ''\n"
             "        if src != tgt:\n"
             "            out, err, ret = ru.sh_callout('cp -r %s %s' % (src, tgt))\n"
             "        if ret:\n"
             "            raise RuntimeError('copy failed: %s -> %s: %s' % (src, tgt, err))\n")]),
    dict(name='exit status checked in an extracted method', edits=[
        _F22,
        (_H, _H_CHECK,
             "        self._check(ret, err, src, tgt)\n\n"
             "    def _check(self, ret, err, src, tgt):\n"
             "        if ret:\n"
             "            raise RuntimeError('copy failed: %s -> %s: %s' % (src, tgt, err))\n")]),
    dict(name='copy through subprocess.run with check=True', edits=[
        _F22,
        (_H, _H_IMPORT, "import os\nimport shutil\nimport requests\nimport subprocess\n"),
        (_H, _H_CALL + _H_CHECK, "        subprocess.run(['cp', '-r', src, tgt], check=True)\n")]),
    dict(name='copy through subprocess.check_call', edits=[
        _F22,
        (_H, _H_IMPORT, "import os\nimport shutil\nimport requests\nimport subprocess\n"),
        (_H, _H_CALL + _H_CHECK, "        subprocess.check_call(['cp', '-r', src, tgt])\n")]),
    # R11.13
    dict(name='complete_url: path component through a local', edits=[
        (SD, _SD_APPEND, "            rel = purl.path\n            ret.path += '/%s' % rel\n")]),
    dict(name='complete_url: path rebuilt by a plain assignment', edits=[
        (SD, _SD_APPEND, "            ret.path = '%s/%s' % (ret.path, purl.path)\n")]),
    dict(name='complete_url: path appended by concatenation', edits=[
        (SD, _SD_APPEND, "            ret.path += '/' + purl.path\n")]),
    dict(name='complete_url: parsed URL under another name, path by format()', edits=[
        (SD, _SD_APPEND, "            parsed = purl\n            ret.path += '/{}'.format(parsed.path)\n")]),
    # R11.14
    dict(name='local move: parent directory through a local', edits=[
        (_H, _H_MOVE,
             "        parent = os.path.dirname(tgt)\n"
             "        self.mkdir(parent, flags)\n"
             "        shutil.move(src, tgt)\n")]),
    dict(name='local link: parent directory by os.path.split', edits=[
        (_H, _H_LINK, "        self.mkdir(os.path.split(tgt)[0], flags)\n        os.link(src, tgt)\n")]),
    dict(name='local move: parent made before the URLs are converted', edits=[
        (_H, "    def move(self, src, tgt, flags):\n        src = ru.Url(src).path\n        tgt = ru.Url(tgt).path\n" + _H_MOVE,
             "    def move(self, src, tgt, flags):\n"
             "        self.mkdir(os.path.dirname(ru.Url(tgt).path), flags)\n"
             "        src = ru.Url(src).path\n"
             "        tgt = ru.Url(tgt).path\n"
             "        shutil.move(src, tgt)\n")]),
    dict(name='local download: parent directory by os.makedirs', edits=[
        (_H, _H_DOWN, "        os.makedirs(os.path.dirname(tgt), exist_ok=True)\n        r = requests.get(src, stream=True)\n")]),
    dict(name='local move: grandparent as well', edits=[
        (_H, _H_MOVE,
             "        self.mkdir(os.path.dirname(os.path.dirname(tgt)), flags)\n"
             "        self.mkdir(os.path.dirname(tgt), flags)\n"
             "        shutil.move(src, tgt)\n")]),
]


# ---- round 5 (C11-h4, C11-h5, C05-r10): per-task isolation re-evaluated
# (R11.16 = R05.4 of C05), description-only keys (R11.15), skip test which is
# no plain comparison (R11.7 evaluates `(x or DONE) != DONE`)
_SOE      = "                        and not task['description'].get('stage_on_error'):\n"
_AO_SKIP  = ("                if task['target_state'] != rps.DONE \\\n" + _SOE)
_AI_TRY   = "                self._handle_task_staging(task, actionables)\n\n            except Exception as e:\n"
_AI_HND   = ("            except Exception as e:\n"
             "                self._log.exception('staging error')\n"
             "                task['exception']        = repr(e)\n"
             "                task['exception_detail'] = '\\n'.join(ru.get_exception_trace())\n")
_TI_TRY   = "                    self._advance_tasks([task], pid)\n\n                except Exception as e:\n"
_TO_SKIP  = ("            target_state = task.get('target_state')\n"
             "            if target_state and target_state != rps.DONE:\n")
_AO_DEFW  = "    # --------------------------------------------------------------------------\n    #\n    def work(self, tasks):\n\n        self.advance(tasks, rps.AGENT_STAGING_OUTPUT, publish=True, push=False)\n"

MUTATIONS += [
    dict(name='R11.16 agent input stager: handler narrowed to OSError / IOError (seed C11-h4)', rules=('R11.16',), edits=[
        (_AI, _AI_TRY, "                self._handle_task_staging(task, actionables)\n\n            except (OSError, IOError) as e:\n")]),
    dict(name='R11.16 agent output stager: handler of the staging loop narrowed to OSError', rules=('R11.16',), edits=[
        (_AO, _AI_TRY, "                self._handle_task_staging(task, actionables)\n\n            except OSError as e:\n")]),
    dict(name='R11.16 client input stager: handler only for ValueError and RuntimeError', rules=('R11.16',), edits=[
        (_TI, _TI_TRY, "                    self._advance_tasks([task], pid)\n\n                except (ValueError, RuntimeError) as e:\n")]),
    dict(name='R11.16 agent input stager: handler re-raises what is no OSError', rules=('R11.16',), edits=[
        (_AI, _AI_TRY, "                self._handle_task_staging(task, actionables)\n\n            except OSError as e:\n"),
        (_AI, "                self.advance(task, rps.FAILED)\n\n\n    # ----", "                self.advance(task, rps.FAILED)\n\n            except Exception:\n                raise\n\n\n    # ----")]),
    dict(name='R11.15 stage_on_error read from the task dict (seed C11-h5)', rules=('R11.15',), edits=[
        (_AO, _SOE, "                        and not task.get('stage_on_error'):\n")]),
    dict(name='R11.15 stage_on_error hoisted into a flag read from the task dict by subscript', rules=('R11.15',), edits=[
        (_AO, _AO_SKIP, "                on_error = task['stage_on_error'] if 'stage_on_error' in task else False\n                if task['target_state'] != rps.DONE \\\n                        and not on_error:\n")]),
    dict(name='R11.15 stage_on_error read through an alias of the task dict', rules=('R11.15',), edits=[
        (_AO, _AO_SKIP, "                t = task\n                if t['target_state'] != rps.DONE \\\n                        and not t.get('stage_on_error', False):\n")]),
    dict(name='R11.15 extracted helper is handed the task dict and reads the flag from it', rules=('R11.15',), edits=[
        (_AO, _SOE, "                        and not self._stage_on_error(task):\n"),
        (_AO, _AO_DEFW, "    # --------------------------------------------------------------------------\n    #\n    def _stage_on_error(self, thing):\n\n        return bool(thing.get('stage_on_error'))\n\n\n" + _AO_DEFW)]),
    dict(name='R11.7 client output skip test (C05-r10 form) skips the DONE tasks', rules=('R11.7',), edits=[
        (_TO, _TO_SKIP, "            if (task.get('target_state') or rps.DONE) == rps.DONE:\n")]),
]

SILENT += [
    dict(name='isolation site: exception variable renamed, record statements reordered', edits=[
        (_AI, _AI_HND,
             "            except Exception as exc:\n"
             "                task['exception_detail'] = '\\n'.join(ru.get_exception_trace())\n"
             "                task['exception']        = repr(exc)\n"
             "                self._log.exception('staging error')\n")]),
    dict(name='isolation site: bare except with the error from sys.exc_info', edits=[
        (_AI, _AI_HND,
             "            except:                                    # noqa\n"
             "                import sys\n"
             "                e = sys.exc_info()[1]\n"
             "                self._log.exception('staging error')\n"
             "                task['exception']        = repr(e)\n"
             "                task['exception_detail'] = '\\n'.join(ru.get_exception_trace())\n")]),
    dict(name='isolation site: OSError handled first, everything else by the catch-all', edits=[
        (_AI, _AI_HND,
             "            except OSError as e:\n"
             "                self._log.exception('staging error (I/O)')\n"
             "                task['exception']        = repr(e)\n"
             "                task['exception_detail'] = '\\n'.join(ru.get_exception_trace())\n"
             "                self.advance(task, rps.FAILED)\n\n" + _AI_HND)]),
    dict(name='description site: description hoisted into a local', edits=[
        (_AO, _AO_SKIP, "                td = task['description']\n                if task['target_state'] != rps.DONE \\\n                        and not td.get('stage_on_error'):\n")]),
    dict(name='description site: description read with .get() and a default', edits=[
        (_AO, _SOE, "                        and not task.get('description', {}).get('stage_on_error', False):\n")]),
    dict(name='description site: flag hoisted, skip in nested if form', edits=[
        (_AO, _AO_SKIP, "                on_error = bool(task['description'].get('stage_on_error'))\n                if task['target_state'] != rps.DONE and not on_error:\n")]),
    dict(name='description site: flag from an extracted helper which is handed the task', edits=[
        (_AO, _SOE, "                        and not self._stage_on_error(task):\n"),
        (_AO, _AO_DEFW, "    # --------------------------------------------------------------------------\n    #\n    def _stage_on_error(self, task):\n\n        return bool(task['description'].get('stage_on_error'))\n\n\n" + _AO_DEFW)]),
    dict(name='description site: flag from an extracted helper which is handed the description', edits=[
        (_AO, _SOE, "                        and not self._stage_on_error(task['description']):\n"),
        (_AO, _AO_DEFW, "    # --------------------------------------------------------------------------\n    #\n    def _stage_on_error(self, descr):\n\n        return bool(descr.get('stage_on_error'))\n\n\n" + _AO_DEFW)]),
    dict(name='skip site: client output test as (x or DONE) != DONE (C05-r10 form)', edits=[
        (_TO, _TO_SKIP, "            if (task.get('target_state') or rps.DONE) != rps.DONE:\n")]),
    dict(name='skip site: client output test as a conditional expression through a local', edits=[
        (_TO, _TO_SKIP, "            target_state = task.get('target_state')\n            skip = (target_state != rps.DONE) if target_state else False\n            if skip:\n")]),
    dict(name='skip site: client output directives collected by a comprehension (C05-r10 form)', edits=[
        (_TO, "            actionables = list()\n            for sd in task['description'].get('output_staging', []):\n\n                if sd['action'] == rpc.TRANSFER:\n                    actionables.append(sd)\n",
              "            actionables = [sd for sd\n                              in task['description'].get('output_staging', [])\n                              if sd['action'] == rpc.TRANSFER]\n")]),
]


# ------------------------------------------------------------------------------
# round 6: R11.17 (pilot level staging contexts), R11.18 (trailing slash of the
# expanded path), dict spreads in context tables (R11.6)
#
_P = 'pilot.py'
_P_IN  = ("            sd['source'] = str(complete_url(sd['source'], self._loc_ctx, self._log))\n"
          "            sd['target'] = str(complete_url(sd['target'], self._rem_ctx, self._log))\n")
_P_OUT = ("            sd['source'] = str(complete_url(sd['source'], self._rem_ctx, self._log))\n"
          "            sd['target'] = str(complete_url(sd['target'], self._loc_ctx, self._log))\n")
_P_REM = ("        self._rem_ctx = {'pwd'     : self._pilot_sandbox,\n"
          "                         'client'  : self._client_sandbox,\n"
          "                         'pilot'   : self._pilot_sandbox,\n"
          "                         'resource': self._resource_sandbox,\n"
          "                         'session' : self._session_sandbox,\n"
          "                         'endpoint': self._endpoint_fs}\n")
_P_LOC = ("        self._loc_ctx = {'pwd'     : self._client_sandbox,\n"
          "                         'client'  : self._client_sandbox,\n"
          "                         'pilot'   : self._pilot_sandbox,\n"
          "                         'resource': self._resource_sandbox,\n"
          "                         'session' : self._session_sandbox,\n"
          "                         'endpoint': self._endpoint_fs}\n")
_P_GET = "        self._pilot_sandbox    = self._session._get_pilot_sandbox   (pilot)\n"
_TI_SRC_CTX = ("        src_context = {'pwd'      : task['client_sandbox'],     # !!!\n"
               "                       'client'   : task['client_sandbox'],\n"
               "                       'task'     : task['task_sandbox'],\n"
               "                       'pilot'    : task['pilot_sandbox'],\n"
               "                       'session'  : task['session_sandbox'],\n"
               "                       'resource' : task['resource_sandbox'],\n"
               "                       'endpoint' : task['endpoint_fs']}\n")
_TI_TGT_CTX = ("        tgt_context = {'pwd'      : task['task_sandbox'],       # !!!\n"
               "                       'client'   : task['client_sandbox'],\n"
               "                       'task'     : task['task_sandbox'],\n"
               "                       'pilot'    : task['pilot_sandbox'],\n"
               "                       'session'  : task['session_sandbox'],\n"
               "                       'resource' : task['resource_sandbox'],\n"
               "                       'endpoint' : task['endpoint_fs']}\n")
_TI_SHARED = ("        sandboxes   = {'client'   : task['client_sandbox'],\n"
              "                       'task'     : task['task_sandbox'],\n"
              "                       'pilot'    : task['%s'],\n"
              "                       'session'  : task['session_sandbox'],\n"
              "                       'resource' : task['resource_sandbox'],\n"
              "                       'endpoint' : task['endpoint_fs']}\n")

MUTATIONS += [
    # --- R11.17
    dict(name='R11.17 seed C11-i1: Pilot.stage_out contexts swapped', rules=('R11.17',), edits=[
        (_P, _P_OUT,
             "            sd['source'] = str(complete_url(sd['source'], self._loc_ctx, self._log))\n"
             "            sd['target'] = str(complete_url(sd['target'], self._rem_ctx, self._log))\n")]),
    dict(name='R11.17 sibling site: Pilot.stage_in completes the target with the local context', rules=('R11.17',), edits=[
        (_P, _P_IN,
             "            sd['source'] = str(complete_url(sd['source'], self._loc_ctx, self._log))\n"
             "            sd['target'] = str(complete_url(sd['target'], self._loc_ctx, self._log))\n")]),
    dict(name='R11.17 stage_out: one context through a local for both operands', rules=('R11.17',), edits=[
        (_P, _P_OUT,
             "            ctx = self._rem_ctx\n"
             "            sd['source'] = str(complete_url(sd['source'], ctx, self._log))\n"
             "            sd['target'] = str(complete_url(path=sd['target'], context=ctx, log=self._log))\n")]),
    dict(name='R11.17 remote context: pwd is the session sandbox', rules=('R11.17',), edits=[
        (_P, "        self._rem_ctx = {'pwd'     : self._pilot_sandbox,\n",
             "        self._rem_ctx = {'pwd'     : self._session_sandbox,\n")]),
    dict(name='R11.17 local context: pilot:// fed by the session sandbox', rules=('R11.17',), edits=[
        (_P, _P_LOC, _P_LOC.replace("'pilot'   : self._pilot_sandbox", "'pilot'   : self._session_sandbox"))]),
    dict(name='R11.17 pilot sandbox attribute bound to the result of the session getter', rules=('R11.17',), edits=[
        (_P, _P_GET, "        self._pilot_sandbox    = self._session._get_session_sandbox (pilot)\n")]),
    dict(name='R11.17 remote context loses its pwd entry', rules=('R11.17',), edits=[
        (_P, "        self._rem_ctx = {'pwd'     : self._pilot_sandbox,\n                         'client'",
             "        self._rem_ctx = {'client'")]),
    # --- R11.18
    dict(name='R11.18 seed C11-i5: expanded path through os.path.normpath', rules=('R11.18',), edits=[
        (SD, _SD_APPEND, "            ret.path = os.path.normpath('%s/%s' % (ret.path, purl.path))\n")]),
    dict(name='R11.18 path component stripped of slashes', rules=('R11.18',), edits=[
        (SD, _SD_APPEND, "            ret.path += '/%s' % purl.path.strip('/')\n")]),
    dict(name='R11.18 path component normalised through a local', rules=('R11.18',), edits=[
        (SD, _SD_APPEND, "            rel = os.path.normpath(purl.path)\n            ret.path += '/' + rel\n")]),
    dict(name='R11.18 result normalised after the path was appended', rules=('R11.18',), edits=[
        (SD, _SD_APPEND, _SD_APPEND + "            ret.path = os.path.abspath(ret.path)\n")]),
    # --- R11.6 over the merged context tables of C11-r11
    dict(name='R11.6 C11-r11 form, shared table feeds pilot from the session sandbox', rules=('R11.6',), edits=[
        (_TI, _TI_SRC_CTX + _TI_TGT_CTX,
              _TI_SHARED % 'session_sandbox' +
              "        src_context = {'pwd': task['client_sandbox'], **sandboxes}\n"
              "        tgt_context = {'pwd': task['task_sandbox'],   **sandboxes}\n")]),
    dict(name='R11.6 C11-r11 form, spread after pwd overrides nothing but pwd comes from the pilot', rules=('R11.6',), edits=[
        (_TI, _TI_SRC_CTX + _TI_TGT_CTX,
              _TI_SHARED % 'pilot_sandbox' +
              "        src_context = {'pwd': task['client_sandbox'], **sandboxes}\n"
              "        tgt_context = {**sandboxes, 'pwd': task['pilot_sandbox']}\n")]),
]

SILENT += [
    # R11.6 (dict spreads)
    dict(name='context site: C11-r11 form, shared table spread into both contexts', edits=[
        (_TI, _TI_SRC_CTX + _TI_TGT_CTX,
              _TI_SHARED % 'pilot_sandbox' +
              "        src_context = {'pwd': task['client_sandbox'], **sandboxes}\n"
              "        tgt_context = {'pwd': task['task_sandbox'],   **sandboxes}\n")]),
    dict(name='context site: shared table merged by dict(**) and by `|`', edits=[
        (_TI, _TI_SRC_CTX + _TI_TGT_CTX,
              _TI_SHARED % 'pilot_sandbox' +
              "        src_context = dict(pwd=task['client_sandbox'], **sandboxes)\n"
              "        tgt_context = sandboxes | {'pwd': task['task_sandbox']}\n")]),
    # R11.17
    dict(name='pilot staging: contexts hoisted into locals in stage_out', edits=[
        (_P, _P_OUT,
             "            src_ctx, tgt_ctx = self._rem_ctx, self._loc_ctx\n"
             "            sd['source'] = str(complete_url(sd['source'], src_ctx, self._log))\n"
             "            sd['target'] = str(complete_url(sd['target'], tgt_ctx, self._log))\n")]),
    dict(name='pilot staging: keyword arguments and reordered statements in stage_in', edits=[
        (_P, _P_IN,
             "            sd['target'] = str(complete_url(context=self._rem_ctx, path=sd['target'], log=self._log))\n"
             "            sd['source'] = str(complete_url(path=sd['source'], context=self._loc_ctx, log=self._log))\n")]),
    dict(name='pilot staging: contexts built from a shared table (spread / dict())', edits=[
        (_P, _P_REM + "\n" + _P_LOC,
             "        sandboxes = {'client'  : self._client_sandbox,\n"
             "                     'pilot'   : self._pilot_sandbox,\n"
             "                     'resource': self._resource_sandbox,\n"
             "                     'session' : self._session_sandbox,\n"
             "                     'endpoint': self._endpoint_fs}\n"
             "        self._rem_ctx = {'pwd': self._pilot_sandbox, **sandboxes}\n"
             "        self._loc_ctx = dict(sandboxes, pwd=self._client_sandbox)\n")]),
    dict(name='pilot staging: context attributes renamed', edits=[
        (_P, _P_REM, _P_REM.replace('self._rem_ctx = {', 'self._ctx_a   = {')),
        (_P, _P_LOC, _P_LOC.replace('self._loc_ctx = {', 'self._ctx_b   = {')),
        (_P, _P_IN,  _P_IN .replace('_rem_ctx', '_ctx_a').replace('_loc_ctx', '_ctx_b')),
        (_P, _P_OUT, _P_OUT.replace('_rem_ctx', '_ctx_a').replace('_loc_ctx', '_ctx_b'))]),
    dict(name='pilot staging: pilot sandbox fetched through a local', edits=[
        (_P, _P_GET,
             "        psbox = self._session._get_pilot_sandbox(pilot)\n"
             "        self._pilot_sandbox    = psbox\n")]),
    dict(name='pilot staging: item stores instead of a literal for the local context', edits=[
        (_P, _P_LOC,
             "        self._loc_ctx = dict(self._rem_ctx)\n"
             "        self._loc_ctx['pwd'] = self._client_sandbox\n")]),
    # R11.18
    dict(name='complete_url: context URL normalised before the path is appended', edits=[
        (SD, _SD_APPEND, "            ret.path = os.path.normpath(ret.path)\n" + _SD_APPEND)],
         note='the sandbox directory is the same location with or without `//`'),
    dict(name='complete_url: normalised base and path component in one expression', edits=[
        (SD, _SD_APPEND, "            ret.path = os.path.normpath(ret.path) + '/' + purl.path\n")]),
    dict(name='complete_url: normalised path only in the debug message', edits=[
        (SD, "                log.debug('   expand with %s', context.get(purl.schema))\n",
             "                log.debug('   expand with %s -> %s', context.get(purl.schema),\n"
             "                          os.path.normpath(ret.path))\n")]),
    dict(name='complete_url: working directory normalised', edits=[
        (SD, "            ret = ru.Url(os.getcwd())\n", "            ret = ru.Url(os.path.normpath(os.getcwd()))\n")]),
]

MUTATIONS += [
    dict(name='R11.17 stage_out no longer completes the target', rules=('R11.17',), edits=[
        (_P, _P_OUT, "            sd['source'] = str(complete_url(sd['source'], self._rem_ctx, self._log))\n")]),
]


# ------------------------------------------------------------------------------
# round 7: R11.19 (complete_url changes only objects it made itself), R11.20
# (a task whose per-task worker raised is handed on as FAILED only)
#
_SD_COPY = "            ret = ru.Url(context[purl.schema])\n"
_TI_LOOP = ("                try:\n"
            "                    self._handle_task(task, actionables)\n"
            "                    self._advance_tasks([task], pid)\n\n"
            "                except Exception as e:\n")
_TI_FAIL = "                    to_fail.append(task)\n"
_AI_LOOP = ("            try:\n"
            "                self._handle_task_staging(task, actionables)\n\n"
            "            except Exception as e:\n"
            "                self._log.exception('staging error')\n"
            "                task['exception']        = repr(e)\n"
            "                task['exception_detail'] = '\\n'.join(ru.get_exception_trace())\n\n"
            "                self.advance(task, rps.FAILED)\n\n\n"
            "    # --------------------------------------------------------------------------\n"
            "    #\n"
            "    def _handle_task_staging(self, task, actionables):\n")

MUTATIONS += [
    dict(name='R11.19 seed C11-j2: context entry which is a Url already is not copied', rules=('R11.19',), edits=[
        (SD, _SD_COPY,
             "            ret = context[purl.schema]\n"
             "            if not isinstance(ret, ru.Url):\n"
             "                ret = ru.Url(ret)\n")]),
    dict(name='R11.19 context entry fetched with .get() through a second local, copied only when a string', rules=('R11.19',), edits=[
        (SD, _SD_COPY,
             "            base = context.get(purl.schema)\n"
             "            ret  = ru.Url(base) if isinstance(base, str) else base\n")]),
    dict(name='R11.19 path appended to the context entry itself', rules=('R11.19',), edits=[
        (SD, _SD_COPY + "\n        if expand:\n" + _SD_APPEND,
             "            ret = None\n\n        if expand and ret is None:\n"
             "            context[purl.schema].path += '/%s' % purl.path\n"
             "            ret = ru.Url(context[purl.schema])\n\n"
             "        elif expand:\n" + _SD_APPEND)]),
    dict(name='R11.20 seed C11-j3: hand-on to the agent moved behind the try/except', rules=('R11.20',), edits=[
        (_TI, "                    self._handle_task(task, actionables)\n                    self._advance_tasks([task], pid)\n",
              "                    self._handle_task(task, actionables)\n"),
        (_TI, _TI_FAIL, _TI_FAIL + "\n                # staging is done, push to the agent\n"
                                   "                self._advance_tasks([task], pid)\n")]),
    dict(name='R11.20 hand-on to the agent in a finally clause', rules=('R11.20',), edits=[
        (_TI, "                    self._handle_task(task, actionables)\n                    self._advance_tasks([task], pid)\n",
              "                    self._handle_task(task, actionables)\n"),
        (_TI, _TI_FAIL, _TI_FAIL + "\n                finally:\n"
                                   "                    self._advance_tasks([task], pid)\n")]),
    dict(name='R11.20 agent input stager: task pushed to the scheduler behind the try/except', rules=('R11.20',), edits=[
        (_AI, _AI_LOOP, _AI_LOOP.replace(
            "                self.advance(task, rps.FAILED)\n\n\n",
            "                self.advance(task, rps.FAILED)\n\n"
            "            self.advance(task, rps.AGENT_SCHEDULING_PENDING,\n"
            "                         publish=True, push=True)\n\n\n"))]),
]

SILENT += [
    dict(name='copy site: context entry through a local, always copied', edits=[
        (SD, _SD_COPY,
             "            base = context[purl.schema]\n"
             "            ret  = ru.Url(base)\n")]),
    dict(name='copy site: entry which is a Url already copied with copy.deepcopy', edits=[
        (SD, _SD_COPY,
             "            ret = context[purl.schema]\n"
             "            if isinstance(ret, ru.Url):\n"
             "                import copy\n"
             "                ret = copy.deepcopy(ret)\n"
             "            else:\n"
             "                ret = ru.Url(ret)\n")]),
    dict(name='copy site: path built first, stored into the copy by plain assignment', edits=[
        (SD, "        if expand:\n" + _SD_APPEND,
             "        if expand:\n"
             "            new_path = '%s/%s' % (ret.path, purl.path)\n"
             "            ret.path = new_path\n")]),
    dict(name='copy site: context entry read again for the debug message only', edits=[
        (SD, "                log.debug('   expand with %s', context.get(purl.schema))\n",
             "                entry = context.get(purl.schema)\n"
             "                log.debug('   expand with %s', entry)\n")]),
    dict(name='hand-on site: push to the agent in the else clause of the try', edits=[
        (_TI, "                    self._handle_task(task, actionables)\n                    self._advance_tasks([task], pid)\n",
              "                    self._handle_task(task, actionables)\n"),
        (_TI, _TI_FAIL, _TI_FAIL + "\n                else:\n"
                                   "                    self._advance_tasks([task], pid)\n")]),
    dict(name='hand-on site: handler leaves the iteration, push behind the try/except', edits=[
        (_TI, "                    self._handle_task(task, actionables)\n                    self._advance_tasks([task], pid)\n",
              "                    self._handle_task(task, actionables)\n"),
        (_TI, _TI_FAIL, _TI_FAIL + "                    continue\n\n"
                                   "                self._advance_tasks([task], pid)\n")]),
    dict(name='hand-on site: failure noted in a flag, push behind the try/except under the flag', edits=[
        (_TI, "                try:\n                    self._handle_task(task, actionables)\n                    self._advance_tasks([task], pid)\n",
              "                staged = True\n                try:\n                    self._handle_task(task, actionables)\n"),
        (_TI, _TI_FAIL, _TI_FAIL + "                    staged = False\n\n"
                                   "                if staged:\n"
                                   "                    self._advance_tasks([task], pid)\n")]),
    dict(name='hand-on site: agent input stager fails the task as a one-element bulk, then logs', edits=[
        (_AI, _AI_LOOP, _AI_LOOP.replace(
            "                self.advance(task, rps.FAILED)\n",
            "                self.advance([task], rps.FAILED, publish=True, push=False)\n\n"
            "            self._log.debug('staging of %s handled', task['uid'])\n"))]),
]


# ------------------------------------------------------------------------------
# round 8: R11.7 decides the skip guard of the output stagers over the whole
# finite set states.FINAL (seed C11-k1: `!= DONE` became `== FAILED`, a CANCELED
# task is staged)
_AO_GUARD = "                if task['target_state'] != rps.DONE \\\n"
_TO_GUARD = "            if target_state and target_state != rps.DONE:\n"

MUTATIONS += [
    dict(name='R11.7 agent output stager: skip guard compares with FAILED, CANCELED passes (seed C11-k1)', rules=('R11.7',), edits=[
        (_AO, _AO_GUARD, "                if task['target_state'] == rps.FAILED \\\n")]),
    dict(name='R11.7 client output stager: skip guard compares with FAILED, CANCELED passes', rules=('R11.7',), edits=[
        (_TO, _TO_GUARD, "            if target_state and target_state == rps.FAILED:\n")]),
    dict(name='R11.7 agent output stager: skip guard exempts CANCELED next to DONE', rules=('R11.7',), edits=[
        (_AO, _AO_GUARD, "                if task['target_state'] not in [rps.DONE, rps.CANCELED] \\\n")]),
]

SILENT += [
    dict(name='agent output skip guard spelled as membership in the non-DONE final states', edits=[
        (_AO, _AO_GUARD, "                if task['target_state'] in [rps.FAILED, rps.CANCELED] \\\n")]),
    dict(name='agent output skip guard spelled as `not in [DONE]`', edits=[
        (_AO, _AO_GUARD, "                if task['target_state'] not in [rps.DONE] \\\n")]),
    dict(name='client output skip guard spelled as membership in the non-DONE final states', edits=[
        (_TO, _TO_GUARD, "            if target_state in (rps.FAILED, rps.CANCELED):\n")]),
]
